#!/bin/bash
# Builds the verification tooling from files on disk only (offline).
set -eu
cd "$(dirname "$0")/.."
export GOFLAGS=-mod=mod GOPROXY=off GOSUMDB=off GOTOOLCHAIN=local GOWORK=off
mkdir -p bin evidence replays
(cd sim/tool && go build -o ../../bin/verif ./cmd/verif && go build -o ../../bin/instr ./cmd/instr)
echo "setup: built bin/verif and bin/instr"
