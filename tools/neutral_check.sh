#!/bin/bash
# neutral_check.sh <id> [tier]: run the owning check against a copy of /repo with a NEUTRAL change applied (must stay exit 0).
set -u
VROOT=$(cd "$(dirname "$0")/.." && pwd)
id=$1; tier=${2:-quick}
d=$VROOT/seeded/neutral/$id
prop=$(python3 -c "import json;print(json.load(open('$d/meta.json'))['property'])")
W=$(mktemp -d /tmp/verif-seedrepo-XXXXXX); trap 'rm -rf "$W"' EXIT
rsync -a /repo/ "$W"/
(cd "$W" && git apply "$d/patch.diff") || { echo "patch does not apply"; exit 2; }
(cd "$W" && VERIF_REPO="$W" "$VROOT"/tools/baseline.sh >/dev/null 2>"$W/.bl"; tail -1 "$W/.bl")
cd "$VROOT"
out=$(VERIF_REPO="$W" VERIF_SEED=${VERIF_SEED:-1} ./bin/verif check "$prop" --tier "$tier" 2>&1); rc=$?
echo "$out" | grep -E "^(VIOLATION|KNOWN|RESULT|TROUBLE)" | cut -c1-300
echo "$out" | grep -A3 "^VIOLATION" | grep -E "oracle=" | cut -c1-200 | head -5
echo "NEUTRAL $id property=$prop exit=$rc $([ $rc = 0 ] && echo SILENT-AS-REQUIRED || echo FALSE-ALARM)"
