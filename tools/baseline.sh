#!/bin/bash
# Runs the repository's own test suite (both modules) on a scratch copy of the
# current /repo working tree and prints pass/fail counts. The go tool is never
# run inside /repo (with -mod=mod it would rewrite /repo/go.sum).
set -u
export GOFLAGS=-mod=mod GOPROXY=off GOSUMDB=off GOTOOLCHAIN=local
REPO=${VERIF_REPO:-/repo}
S=$(mktemp -d /tmp/verif-baseline-XXXXXX)
trap 'rm -rf "$S"' EXIT
rsync -a --exclude .git "$REPO"/ "$S"/repo/
rc=0
for m in . v2; do
  (cd "$S/repo/$m" && go test -vet=off -count=1 -timeout 25m -json ./... > "$S/out.$(basename $(realpath $m)).json" 2>"$S/err.txt") || true
done
python3 - "$S" <<'PY'
import json,sys,glob
p=f=0; failed=[]
for fn in glob.glob(sys.argv[1]+'/out.*.json'):
    for l in open(fn):
        try: e=json.loads(l)
        except: continue
        if e.get('Test') and e.get('Action') in('pass','fail'):
            if e['Action']=='pass': p+=1
            else: f+=1; failed.append(e['Package']+'::'+e['Test'])
print(f"baseline: passed={p} failed={f}")
for x in failed: print("  FAIL",x)
sys.exit(1 if f else 0)
PY
