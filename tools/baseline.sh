#!/bin/bash
# Runs the repository's own test suite (both modules) on a scratch copy of the
# current /repo working tree: `go test -json` streams on stdout, a pass/fail
# summary on stderr, exit 0 iff no test failed. There are no source hooks, so
# "guard off" is simply the tree as it is. The go tool is never run inside
# /repo (with -mod=mod it would rewrite /repo/go.sum).
set -u
export GOFLAGS=-mod=mod GOPROXY=off GOSUMDB=off GOTOOLCHAIN=local
REPO=${VERIF_REPO:-/repo}
S=$(mktemp -d /tmp/verif-baseline-XXXXXX)
trap 'rm -rf "$S"' EXIT
rsync -a --exclude .git "$REPO"/ "$S"/repo/
i=0
for m in . v2; do
  i=$((i+1))
  (cd "$S/repo/$m" && go test -vet=off -count=1 -timeout 25m -json ./... > "$S/out.$i.json" 2>"$S/err.$i.txt") || true
  cat "$S/out.$i.json"
done
python3 - "$S" >&2 <<'PY'
import json,sys,glob
p=f=0; failed=[]
for fn in glob.glob(sys.argv[1]+'/out.*.json'):
    for l in open(fn):
        try: e=json.loads(l)
        except: continue
        if e.get('Test') and e.get('Action') in('pass','fail'):
            if e['Action']=='pass': p+=1
            else: f+=1; failed.append(e['Package']+'::'+e['Test'])
print(f"baseline: passed={p} failed={f}")
for x in failed: print("  FAIL",x)
sys.exit(1 if f else 0)
PY
