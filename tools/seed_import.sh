#!/bin/bash
# seed_import.sh <agent _out/X dir> <seeded id> <property> : copy a candidate change into /verif/seeded/<id>/
set -eu
src=$1; id=$2; prop=$3
d=/verif/seeded/$id
mkdir -p "$d"
cp "$src/patch.diff" "$d/patch.diff"
cp "$src"/NOTES.md "$d/NOTES.md" 2>/dev/null || true
for f in "$src"/*.go; do [ -e "$f" ] && cp "$f" "$d/$(basename "$f").txt"; done
echo "$prop" > "$d/.property"
ls "$d"
