#!/bin/bash
# seed_intake.sh <agent _out/X dir> <seeded id> <property> <demo package dir> <go test -run regexp> [extra go test flags]
# import a candidate change, confirm it (seed_validate), run the owning check against it (seed_check) and write meta.json.
set -u
VROOT=$(cd "$(dirname "$0")/.." && pwd)
src=$1; id=$2; prop=$3; dest=$4; runre=$5; shift 5; extra="$*"
bash "$VROOT/tools/seed_import.sh" "$src" "$id" "$prop" >/dev/null || exit 2
val=$(bash "$VROOT/tools/seed_validate.sh" "$id" "$dest" "$runre" $extra 2>&1 | tail -3)
echo "$val"
chk=$(bash "$VROOT/tools/seed_check.sh" "$id" 2>&1)
echo "$chk" | tail -6
python3 - "$id" "$prop" "$dest" "$runre" "$extra" "$val" "$chk" <<'EOF'
import json, sys, re, glob, os
id_, prop, dest, runre, extra, val, chk = sys.argv[1:8]
d = f"/verif/seeded/{id_}"
yes = lambda k: (k + "=yes") in val
demo = [os.path.basename(f) for f in glob.glob(d + "/*_test.go.txt")]
notes = open(d + "/NOTES.md").read() if os.path.exists(d + "/NOTES.md") else ""
oracle = re.findall(r"oracle=(\S+)", chk)
meta = {
    "id": id_, "property": prop,
    "breaks": "see NOTES.md",
    "needs_to_manifest": "see NOTES.md",
    "author": "sub-agent round 4 (given only the property text and a scratch worktree)",
    "demonstration": {"file": demo, "copy_to": dest,
                      "command": f"cd {dest} && go test -vet=off -count=1 {extra} -run '{runre}' ."},
    "confirmed": {"by": f"tools/seed_validate.sh {id_} {dest} '{runre}' {extra}".strip(),
                  "existing_suite_passes_with_patch": yes("suite_passes_with_patch"),
                  "demo_fails_with_patch": yes("demo_fails_with_patch"),
                  "demo_passes_without_patch": yes("demo_passes_without_patch")},
    "check_result": {"command": f"tools/seed_check.sh {id_}", "tier": "quick", "seed": 1,
                     "caught": "CAUGHT" in chk, "by_oracle": sorted(set(oracle))[:4]},
}
json.dump(meta, open(d + "/meta.json", "w"), indent=1)
os.path.exists(d + "/.property") and os.remove(d + "/.property")
print("META", id_, meta["confirmed"], meta["check_result"]["caught"], meta["check_result"]["by_oracle"])
EOF
