#!/bin/bash
VROOT=$(cd "$(dirname "$0")/.." && pwd)
# seed_all.sh <property|all> [tier]: run the owning check against every seeded change of a property.
p=${1:-all}; tier=${2:-quick}
cd "$VROOT"
for d in seeded/C*-m*; do
  id=$(basename $d)
  case "$p" in all) ;; *) [[ $id == $p-* ]] || continue;; esac
  ./tools/seed_check.sh $id $tier 2>&1 | tail -1
done
for d in seeded/neutral/*; do
  [ -d "$d" ] || continue
  id=$(basename $d)
  case "$p" in all) ;; *) [[ $id == $p-* ]] || continue;; esac
  ./tools/neutral_check.sh $id $tier 2>&1 | tail -1
done
