#!/bin/bash
# seed_check.sh <id> [tier] : apply the seeded change to /repo, run the owning property's check, undo the change.
set -u
id=$1; tier=${2:-quick}
d=/verif/seeded/$id
prop=$(cat "$d/.property" 2>/dev/null || python3 -c "import json;print(json.load(open('$d/meta.json'))['property'])")
cd /verif
if [ -n "$(git -C /repo status --porcelain)" ]; then echo "refusing: /repo is dirty"; exit 2; fi
git -C /repo apply "$d/patch.diff" || { echo "patch does not apply"; exit 2; }
out=$(VERIF_SEED=${VERIF_SEED:-1} ./bin/verif check "$prop" --tier "$tier" 2>&1); rc=$?
git -C /repo checkout -- .
echo "$out" | grep -E "^(VIOLATION|KNOWN|RESULT|TROUBLE)" | cut -c1-300
echo "$out" | grep -A3 "^VIOLATION" | grep -E "oracle=" | cut -c1-200 | head -5
echo "SEEDED $id property=$prop exit=$rc $([ $rc = 1 ] && echo CAUGHT || echo MISSED)"
