#!/bin/bash
# seed_check.sh <id> [tier] : run the owning property's check against a copy of /repo with the seeded change applied.
# (Equivalent to `git -C /repo apply <patch>; check; git -C /repo checkout -- .`, but /repo itself stays
# untouched, so background sweeps that read /repo are not disturbed.)
set -u
VROOT=$(cd "$(dirname "$0")/.." && pwd)
id=$1; tier=${2:-quick}
d=$VROOT/seeded/$id
prop=$(python3 -c "import json;print(json.load(open('$d/meta.json'))['property'])" 2>/dev/null || cat "$d/.property")
W=$(mktemp -d /tmp/verif-seedrepo-XXXXXX)
trap 'rm -rf "$W"' EXIT
rsync -a /repo/ "$W"/
(cd "$W" && git checkout -q -- . 2>/dev/null; git apply "$d/patch.diff") || { echo "patch does not apply"; exit 2; }
cd "$VROOT"
# the check rewrites evidence/<prop>.json; a run against a patched tree must not leave its file behind
ev="$VROOT/evidence/$prop.json"; bak=$(mktemp /tmp/verif-evbak-XXXXXX); cp "$ev" "$bak" 2>/dev/null
trap 'cp "$bak" "$ev" 2>/dev/null; rm -f "$bak"; rm -rf "$W"' EXIT
out=$(VERIF_REPO="$W" VERIF_SEED=${VERIF_SEED:-1} ./bin/verif check "$prop" --tier "$tier" 2>&1); rc=$?
echo "$out" | grep -E "^(VIOLATION|KNOWN|RESULT|TROUBLE)" | cut -c1-300
echo "$out" | grep -A3 "^VIOLATION" | grep -E "oracle=" | cut -c1-200 | head -5
echo "SEEDED $id property=$prop exit=$rc $([ $rc = 1 ] && echo CAUGHT || echo MISSED)"
