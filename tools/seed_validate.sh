#!/bin/bash
# seed_validate.sh <id> <module dir for the demo: v2|.|stringclassifier|...> <go test -run regexp> [extra go test flags]
# Confirms in a scratch worktree: patch applies, existing suite passes with it, demo fails with it, demo passes without it.
set -u
VROOT=$(cd "$(dirname "$0")/.." && pwd)
export GOFLAGS=-mod=mod GOPROXY=off GOSUMDB=off GOTOOLCHAIN=local
id=$1; dest=$2; runre=$3; shift 3; extra="$*"
d=$VROOT/seeded/$id
W=$(mktemp -d /tmp/verif-seedwt-XXXXXX)
rmdir "$W"
git -C /repo worktree add -q --detach "$W" HEAD || exit 2
cleanup() { git -C /repo worktree remove --force "$W" >/dev/null 2>&1; rm -rf "$W"; }
trap cleanup EXIT
cd "$W"
git apply "$d/patch.diff" || { echo "RESULT $id: patch does not apply"; exit 2; }
mod=.; case "$dest" in v2*) mod=v2;; esac
suite_ok=yes
for m in . v2; do
  out=$(cd "$W/$m" && go test -vet=off -count=1 ./... 2>&1)
  # the root package's own test binary fails at start-up on the unchanged tree too (licenses.db)
  if echo "$out" | grep -E "^(FAIL|---)" | grep -v "^FAIL\s*github.com/google/licenseclassifier\s" | grep -v "^FAIL$" | grep -q .; then suite_ok=no; echo "$out" | grep -E "^(FAIL|--- FAIL)" | head; fi
done
for f in "$d"/*_test.go.txt; do cp "$f" "$W/$dest/$(basename "${f%.txt}")"; done
with=$(cd "$W/$dest" && go test -vet=off -count=1 -run "$runre" $extra . 2>&1 | tail -5); with_rc=$(echo "$with" | grep -c "^ok")
git checkout -q -- . 
without=$(cd "$W/$dest" && go test -vet=off -count=1 -run "$runre" $extra . 2>&1 | tail -3); without_rc=$(echo "$without" | grep -c "^ok")
echo "RESULT $id: suite_passes_with_patch=$suite_ok demo_fails_with_patch=$([ "$with_rc" = 0 ] && echo yes || echo no) demo_passes_without_patch=$([ "$without_rc" != 0 ] && echo yes || echo no)"
