#!/bin/bash
# sweep.sh <tier> <seed>... : run every claimed check for each seed; summary lines only.
tier=$1; shift
cd "$(dirname "$0")/.."
[ -x bin/verif ] || bash tools/setup.sh
for seed in "$@"; do
  for p in C04 C08 C09 C14 C19; do
    out=$(VERIF_SEED=$seed ./bin/verif check $p --tier $tier 2>&1); rc=$?
    echo "seed=$seed $p exit=$rc $(echo "$out" | grep -E '^RESULT' | cut -c1-200)"
    echo "$out" | grep -E '^(VIOLATION|TROUBLE)' -A4 | cut -c1-400
  done
done
