package instr

import (
	"fmt"
	"go/ast"
	"go/token"
	"go/types"
	"strings"
)

func (rw *rewriter) exprs(l []ast.Expr, c ctxKind) []ast.Expr {
	var out []ast.Expr
	for _, e := range l {
		out = append(out, rw.expr(e, c))
	}
	return out
}

func (rw *rewriter) isType(e ast.Expr) bool {
	tv, ok := rw.info.Types[e]
	return ok && tv.IsType()
}

func (rw *rewriter) addressable(e ast.Expr) bool {
	tv, ok := rw.info.Types[e]
	return ok && tv.Addressable()
}

// wrap applies the access event for an addressable location expression.
func (rw *rewriter) wrap(loc ast.Expr, c ctxKind, at ast.Node) ast.Expr {
	fn := ""
	switch c {
	case ctxR:
		fn = "R"
	case ctxW:
		fn = "W"
	case ctxRW:
		fn = "RW"
	default:
		return loc
	}
	rw.count("access-" + fn)
	var site ast.Expr
	if oe, ok := at.(ast.Expr); ok {
		site = rw.siteExpr(at, oe)
	} else {
		site = rw.site(at)
	}
	return &ast.StarExpr{X: rw.call(fn, &ast.UnaryExpr{Op: token.AND, X: loc}, site)}
}

// sharedVar reports whether an identifier denotes a package-level variable of
// an instrumented package or a local variable captured by some closure.
func (rw *rewriter) sharedVar(id *ast.Ident) bool {
	v, ok := rw.info.Uses[id].(*types.Var)
	if !ok || v.IsField() || v.Pkg() == nil || id.Name == "_" {
		return false
	}
	if isSyncType(v.Type()) {
		return false
	}
	if v.Parent() == v.Pkg().Scope() {
		return rw.in.instrPkg[v.Pkg().Path()]
	}
	return rw.captured[v]
}

func isSyncType(t types.Type) bool {
	if p, ok := t.(*types.Pointer); ok {
		t = p.Elem()
	}
	if n, ok := t.(*types.Named); ok && n.Obj().Pkg() != nil {
		p := n.Obj().Pkg().Path()
		return p == "sync" || p == "sync/atomic"
	}
	return false
}

// localRoot reports whether loc is a sub-location of a purely local variable
// (no pointer dereference on the path, root not shared): such memory cannot be
// reached by another task through instrumented code.
func (rw *rewriter) localRoot(e ast.Expr) bool {
	for {
		switch x := e.(type) {
		case *ast.ParenExpr:
			e = x.X
		case *ast.SelectorExpr:
			sel := rw.info.Selections[x]
			if sel == nil {
				return false // qualified identifier
			}
			if sel.Indirect() {
				return false
			}
			if _, ok := rw.info.TypeOf(x.X).Underlying().(*types.Pointer); ok {
				return false
			}
			e = x.X
		case *ast.IndexExpr:
			if _, ok := rw.info.TypeOf(x.X).Underlying().(*types.Array); !ok {
				return false
			}
			e = x.X
		case *ast.Ident:
			v, ok := rw.info.Uses[x].(*types.Var)
			if !ok {
				return false
			}
			return !rw.sharedVar(x) && v.Pkg() != nil && v.Parent() != v.Pkg().Scope()
		default:
			return false
		}
	}
}

func (rw *rewriter) expr(e ast.Expr, c ctxKind) ast.Expr {
	if e == nil {
		return nil
	}
	if rw.isType(e) {
		return e
	}
	switch e := e.(type) {
	case *ast.BasicLit, *ast.Ellipsis, *ast.ArrayType, *ast.MapType, *ast.ChanType, *ast.FuncType, *ast.InterfaceType, *ast.StructType, *ast.BadExpr:
		return e
	case *ast.Ident:
		if rw.opts.Access && rw.sharedVar(e) {
			return rw.wrap(e, c, e)
		}
		return e
	case *ast.ParenExpr:
		return &ast.ParenExpr{Lparen: e.Lparen, X: rw.expr(e.X, c), Rparen: e.Rparen}
	case *ast.SelectorExpr:
		return rw.selector(e, c)
	case *ast.StarExpr:
		x := rw.expr(e.X, ctxR)
		if rw.opts.Access && !rw.opts.NoFields && c != ctxPlace {
			fn := map[ctxKind]string{ctxR: "R", ctxW: "W", ctxRW: "RW"}[c]
			rw.count("access-" + fn)
			return &ast.StarExpr{X: rw.call(fn, x, rw.site(e))}
		}
		return &ast.StarExpr{Star: e.Star, X: x}
	case *ast.IndexExpr:
		return rw.index(e, c)
	case *ast.IndexListExpr:
		return e
	case *ast.SliceExpr:
		xc := ctxR
		if t := rw.info.TypeOf(e.X); t != nil {
			if _, ok := t.Underlying().(*types.Array); ok && rw.addressable(e.X) {
				xc = ctxPlace
			}
		}
		return &ast.SliceExpr{X: rw.expr(e.X, xc), Lbrack: e.Lbrack, Low: rw.expr(e.Low, ctxR), High: rw.expr(e.High, ctxR), Max: rw.expr(e.Max, ctxR), Slice3: e.Slice3, Rbrack: e.Rbrack}
	case *ast.CallExpr:
		return rw.callExpr(e)
	case *ast.UnaryExpr:
		switch e.Op {
		case token.AND:
			if _, ok := unparen(e.X).(*ast.CompositeLit); ok {
				return &ast.UnaryExpr{OpPos: e.OpPos, Op: e.Op, X: rw.expr(e.X, ctxR)}
			}
			return &ast.UnaryExpr{OpPos: e.OpPos, Op: e.Op, X: rw.expr(e.X, ctxPlace)}
		case token.ARROW:
			if rw.opts.Sync {
				rw.count("chan-recv")
				return rw.call("Recv", rw.expr(e.X, ctxR), rw.site(e))
			}
		}
		return &ast.UnaryExpr{OpPos: e.OpPos, Op: e.Op, X: rw.expr(e.X, ctxR)}
	case *ast.BinaryExpr:
		return &ast.BinaryExpr{X: rw.expr(e.X, ctxR), OpPos: e.OpPos, Op: e.Op, Y: rw.expr(e.Y, ctxR)}
	case *ast.KeyValueExpr:
		return &ast.KeyValueExpr{Key: rw.expr(e.Key, ctxR), Colon: e.Colon, Value: rw.expr(e.Value, ctxR)}
	case *ast.CompositeLit:
		return rw.compositeLit(e)
	case *ast.FuncLit:
		rw.funcs = append(rw.funcs, e)
		nf := &ast.FuncLit{Type: e.Type, Body: rw.funcBody(e.Body, e)}
		rw.funcs = rw.funcs[:len(rw.funcs)-1]
		return nf
	case *ast.TypeAssertExpr:
		return &ast.TypeAssertExpr{X: rw.expr(e.X, ctxR), Lparen: e.Lparen, Type: e.Type, Rparen: e.Rparen}
	}
	panic(fmt.Sprintf("instr: unhandled expression %T", e))
}

func unparen(e ast.Expr) ast.Expr {
	for {
		p, ok := e.(*ast.ParenExpr)
		if !ok {
			return e
		}
		e = p.X
	}
}

func (rw *rewriter) compositeLit(e *ast.CompositeLit) ast.Expr {
	n := &ast.CompositeLit{Type: e.Type, Lbrace: e.Lbrace, Rbrace: e.Rbrace, Incomplete: e.Incomplete}
	isStruct := false
	if t := rw.info.TypeOf(e); t != nil {
		u := t.Underlying()
		if p, ok := u.(*types.Pointer); ok {
			u = p.Elem().Underlying()
		}
		_, isStruct = u.(*types.Struct)
	}
	for _, el := range e.Elts {
		if kv, ok := el.(*ast.KeyValueExpr); ok {
			k := kv.Key
			if !isStruct {
				k = rw.expr(kv.Key, ctxR)
			}
			n.Elts = append(n.Elts, &ast.KeyValueExpr{Key: k, Colon: kv.Colon, Value: rw.expr(kv.Value, ctxR)})
		} else {
			n.Elts = append(n.Elts, rw.expr(el, ctxR))
		}
	}
	return n
}

func (rw *rewriter) selector(e *ast.SelectorExpr, c ctxKind) ast.Expr {
	sel := rw.info.Selections[e]
	if sel == nil {
		// qualified identifier pkg.Name
		if v, ok := rw.info.Uses[e.Sel].(*types.Var); ok && rw.opts.Access && v.Pkg() != nil && rw.in.instrPkg[v.Pkg().Path()] && !isSyncType(v.Type()) {
			return rw.wrap(e, c, e)
		}
		return e
	}
	xt := rw.info.TypeOf(e.X)
	_, xIsPtr := xt.Underlying().(*types.Pointer)
	switch sel.Kind() {
	case types.FieldVal:
		var x ast.Expr
		if xIsPtr || !rw.addressable(e.X) {
			x = rw.expr(e.X, ctxR)
		} else {
			x = rw.expr(e.X, ctxPlace)
		}
		ne := &ast.SelectorExpr{X: x, Sel: e.Sel}
		if rw.opts.Access && (!rw.opts.NoFields || rw.inLockBearingStruct(e)) && c != ctxPlace && rw.addressable(e) && !rw.localRoot(e) && !isSyncType(rw.info.TypeOf(e)) {
			return rw.wrap(ne, c, e)
		}
		return ne
	case types.MethodVal:
		f := sel.Obj().(*types.Func)
		sig := f.Type().(*types.Signature)
		_, recvPtr := sig.Recv().Type().(*types.Pointer)
		xc := ctxR
		if recvPtr && !xIsPtr && rw.addressable(e.X) {
			xc = ctxPlace // implicit &x
		}
		return &ast.SelectorExpr{X: rw.expr(e.X, xc), Sel: e.Sel}
	}
	return e
}

// inLockBearingStruct reports whether the field selected by e belongs to a
// struct that (directly or through embedded value fields) contains a type of
// package sync: such structs are state the program synchronises on; the
// frozen arena leaves them on the heap, so their fields report to the race
// checker even in NoFields mode.
func (rw *rewriter) inLockBearingStruct(e *ast.SelectorExpr) bool {
	t := rw.info.TypeOf(e.X)
	if t == nil {
		return false
	}
	if p, ok := t.Underlying().(*types.Pointer); ok {
		t = p.Elem()
	}
	return bearsLock(t, 0)
}

func bearsLock(t types.Type, depth int) bool {
	if depth > 6 {
		return false
	}
	if n, ok := t.(*types.Named); ok && n.Obj().Pkg() != nil {
		if p := n.Obj().Pkg().Path(); p == "sync" || p == "sync/atomic" {
			return true
		}
	}
	switch u := t.Underlying().(type) {
	case *types.Struct:
		for i := 0; i < u.NumFields(); i++ {
			if bearsLock(u.Field(i).Type(), depth+1) {
				return true
			}
		}
	case *types.Array:
		return bearsLock(u.Elem(), depth+1)
	}
	return false
}

func (rw *rewriter) index(e *ast.IndexExpr, c ctxKind) ast.Expr {
	xt := rw.info.TypeOf(e.X)
	if xt == nil {
		return e
	}
	if tv, ok := rw.info.Types[e.X]; ok && !tv.IsValue() {
		return e // generic instantiation
	}
	if _, ok := rw.info.Instances[identOf(e.X)]; ok {
		return e
	}
	idx := rw.expr(e.Index, ctxR)
	switch u := xt.Underlying().(type) {
	case *types.Map:
		x := rw.expr(e.X, ctxR)
		if rw.opts.Access {
			fn := "MapR"
			if c == ctxW || c == ctxRW {
				fn = "MapW"
			}
			rw.count("access-" + fn)
			x = rw.call(fn, x, rw.site(e))
		}
		return &ast.IndexExpr{X: x, Lbrack: e.Lbrack, Index: idx, Rbrack: e.Rbrack}
	case *types.Array:
		xc := ctxR
		if rw.addressable(e.X) {
			xc = ctxPlace
		}
		ne := &ast.IndexExpr{X: rw.expr(e.X, xc), Lbrack: e.Lbrack, Index: idx, Rbrack: e.Rbrack}
		if rw.opts.Access && rw.opts.Elems && c != ctxPlace && rw.addressable(e) && !rw.localRoot(e) {
			return rw.wrap(ne, c, e)
		}
		return ne
	case *types.Slice:
		ne := &ast.IndexExpr{X: rw.expr(e.X, ctxR), Lbrack: e.Lbrack, Index: idx, Rbrack: e.Rbrack}
		if rw.opts.Access && rw.opts.Elems && c != ctxPlace {
			return rw.wrap(ne, c, e)
		}
		return ne
	case *types.Pointer: // pointer to array
		ne := &ast.IndexExpr{X: rw.expr(e.X, ctxR), Lbrack: e.Lbrack, Index: idx, Rbrack: e.Rbrack}
		if rw.opts.Access && rw.opts.Elems && c != ctxPlace {
			return rw.wrap(ne, c, e)
		}
		return ne
	default:
		_ = u
		return &ast.IndexExpr{X: rw.expr(e.X, ctxR), Lbrack: e.Lbrack, Index: idx, Rbrack: e.Rbrack}
	}
}

func identOf(e ast.Expr) *ast.Ident {
	switch x := e.(type) {
	case *ast.Ident:
		return x
	case *ast.SelectorExpr:
		return x.Sel
	}
	return nil
}

var modelledAtomic = func() map[string]bool {
	m := map[string]bool{}
	for _, op := range []string{"Add", "Load", "Store", "Swap", "CompareAndSwap"} {
		for _, t := range []string{"Int32", "Int64", "Uint32", "Uint64"} {
			m[op+t] = true
		}
	}
	return m
}()

// stdFunc reports whether call.Fun denotes pkgPath.name.
func (rw *rewriter) stdFunc(fun ast.Expr) (pkg, name string) {
	sel, ok := fun.(*ast.SelectorExpr)
	if !ok {
		return "", ""
	}
	id, ok := sel.X.(*ast.Ident)
	if !ok {
		return "", ""
	}
	pn, ok := rw.info.Uses[id].(*types.PkgName)
	if !ok {
		return "", ""
	}
	if _, ok := rw.info.Uses[sel.Sel].(*types.Func); !ok {
		return "", ""
	}
	return pn.Imported().Path(), sel.Sel.Name
}

// syncMethod recognises calls of methods of sync.Mutex/RWMutex/WaitGroup and
// returns the receiver as a pointer expression.
func (rw *rewriter) syncMethod(call *ast.CallExpr) (typ, method string, recv ast.Expr, ok bool) {
	se, isSel := call.Fun.(*ast.SelectorExpr)
	if !isSel {
		return
	}
	sel := rw.info.Selections[se]
	if sel == nil || sel.Kind() != types.MethodVal {
		return
	}
	f := sel.Obj().(*types.Func)
	if f.Pkg() == nil || f.Pkg().Path() != "sync" {
		return
	}
	sig := f.Type().(*types.Signature)
	rt := sig.Recv().Type()
	if p, isP := rt.(*types.Pointer); isP {
		rt = p.Elem()
	}
	named, isNamed := rt.(*types.Named)
	if !isNamed {
		return
	}
	typ = named.Obj().Name()
	if typ != "Mutex" && typ != "RWMutex" && typ != "WaitGroup" && typ != "Pool" && typ != "Once" && typ != "Cond" {
		return
	}
	method = f.Name()
	// receiver expression, following embedded fields explicitly
	x := se.X
	xt := rw.info.TypeOf(x)
	path := sel.Index()
	var cur ast.Expr
	_, xIsPtr := xt.Underlying().(*types.Pointer)
	if len(path) == 1 {
		if xIsPtr {
			cur = rw.expr(x, ctxR)
			return typ, method, cur, true
		}
		if !rw.addressable(x) {
			return "", "", nil, false
		}
		return typ, method, &ast.UnaryExpr{Op: token.AND, X: rw.expr(x, ctxPlace)}, true
	}
	// embedded: x.f1.f2...; build selectors by walking struct types
	t := xt
	if xIsPtr {
		cur = rw.expr(x, ctxR)
	} else {
		if !rw.addressable(x) {
			return "", "", nil, false
		}
		cur = rw.expr(x, ctxPlace)
	}
	lastPtr := false
	for _, i := range path[:len(path)-1] {
		if p, isP := t.Underlying().(*types.Pointer); isP {
			t = p.Elem()
		}
		st, isS := t.Underlying().(*types.Struct)
		if !isS {
			return "", "", nil, false
		}
		fld := st.Field(i)
		cur = &ast.SelectorExpr{X: cur, Sel: ast.NewIdent(fld.Name())}
		t = fld.Type()
		_, lastPtr = t.Underlying().(*types.Pointer)
	}
	if lastPtr {
		return typ, method, cur, true
	}
	return typ, method, &ast.UnaryExpr{Op: token.AND, X: cur}, true
}

func (rw *rewriter) callExpr(e *ast.CallExpr) ast.Expr {
	// conversions
	if rw.isType(e.Fun) {
		return &ast.CallExpr{Fun: e.Fun, Lparen: e.Lparen, Args: rw.exprs(e.Args, ctxR), Ellipsis: e.Ellipsis, Rparen: e.Rparen}
	}
	// builtins
	if id, ok := unparen(e.Fun).(*ast.Ident); ok {
		if b, ok := rw.info.Uses[id].(*types.Builtin); ok {
			return rw.builtin(e, b.Name())
		}
	}
	if rw.opts.Sync {
		if typ, method, recv, ok := rw.syncMethod(e); ok {
			fn := ""
			switch typ + "." + method {
			case "Mutex.Lock", "RWMutex.Lock":
				fn = "Lock"
			case "Mutex.Unlock", "RWMutex.Unlock":
				fn = "Unlock"
			case "Mutex.TryLock", "RWMutex.TryLock":
				fn = "TryLock"
			case "RWMutex.RLock":
				fn = "RLock"
			case "RWMutex.RUnlock":
				fn = "RUnlock"
			case "WaitGroup.Add":
				rw.count("sync-WGAdd")
				return rw.call("WGAdd", recv, rw.expr(e.Args[0], ctxR), rw.site(e))
			case "Cond.Wait":
				fn = "CondWait"
			case "Cond.Signal":
				fn = "CondSignal"
			case "Cond.Broadcast":
				fn = "CondBroadcast"
			case "Once.Do":
				rw.count("sync-OnceDo")
				return rw.call("OnceDo", recv, rw.expr(e.Args[0], ctxR), rw.site(e))
			case "Pool.Get":
				rw.count("sync-PoolGet")
				return rw.call("PoolGet", recv, rw.site(e))
			case "Pool.Put":
				rw.count("sync-PoolPut")
				return rw.call("PoolPut", recv, rw.expr(e.Args[0], ctxR), rw.site(e))
			case "WaitGroup.Done":
				fn = "WGDone"
			case "WaitGroup.Wait":
				fn = "WGWait"
			}
			if fn != "" {
				rw.count("sync-" + fn)
				return rw.call(fn, recv, rw.site(e))
			}
			rw.unmodelled(e, "sync."+typ+"."+method)
		}
	}
	if pkg, name := rw.stdFunc(e.Fun); pkg != "" {
		if pkg == "sync/atomic" && (rw.opts.Sync || rw.opts.Access) && modelledAtomic[name] {
			// the pointer argument is an address, not an access
			args := []ast.Expr{}
			for i, a := range e.Args {
				if i == 0 {
					if u, ok := unparen(a).(*ast.UnaryExpr); ok && u.Op == token.AND {
						args = append(args, &ast.UnaryExpr{Op: token.AND, X: rw.expr(u.X, ctxPlace)})
						continue
					}
				}
				args = append(args, rw.expr(a, ctxR))
			}
			rw.count("atomic-" + name)
			return rw.call("Atomic"+name, append(args, rw.site(e))...)
		}
		if rw.opts.Time {
			switch pkg + "." + name {
			case "time.Now":
				rw.count("time-Now")
				return rw.call("Now")
			case "time.Since":
				rw.count("time-Since")
				return rw.call("Since", rw.expr(e.Args[0], ctxR))
			case "time.Until":
				return rw.call("Until", rw.expr(e.Args[0], ctxR))
			case "time.Sleep":
				rw.count("time-Sleep")
				return rw.call("Sleep", rw.expr(e.Args[0], ctxR), rw.site(e))
			case "time.After":
				rw.count("time-After")
				return rw.call("After", rw.expr(e.Args[0], ctxR), rw.site(e))
			case "context.WithTimeout":
				rw.count("context-WithTimeout")
				return rw.call("WithTimeout", rw.expr(e.Args[0], ctxR), rw.expr(e.Args[1], ctxR), rw.site(e))
			case "context.WithDeadline":
				rw.count("context-WithDeadline")
				return rw.call("WithDeadline", rw.expr(e.Args[0], ctxR), rw.expr(e.Args[1], ctxR), rw.site(e))
			case "time.NewTimer", "time.AfterFunc", "time.Tick", "time.NewTicker":
				rw.unmodelled(e, pkg+"."+name)
			}
		}
		if rw.opts.Main {
			switch pkg + "." + name {
			case "os.Exit":
				rw.count("main-Exit")
				return rw.call("Exit", rw.expr(e.Args[0], ctxR))
			case "log.Fatal":
				rw.count("main-Fatal")
				rw.needFmt = true
				return rw.call("Fatal", &ast.CallExpr{Fun: &ast.SelectorExpr{X: ast.NewIdent("fmt"), Sel: ast.NewIdent("Sprint")}, Args: rw.exprs(e.Args, ctxR), Ellipsis: e.Ellipsis})
			case "log.Fatalf":
				rw.count("main-Fatal")
				rw.needFmt = true
				return rw.call("Fatal", &ast.CallExpr{Fun: &ast.SelectorExpr{X: ast.NewIdent("fmt"), Sel: ast.NewIdent("Sprintf")}, Args: rw.exprs(e.Args, ctxR), Ellipsis: e.Ellipsis})
			case "log.Fatalln":
				rw.count("main-Fatal")
				rw.needFmt = true
				return rw.call("Fatal", &ast.CallExpr{Fun: &ast.SelectorExpr{X: ast.NewIdent("fmt"), Sel: ast.NewIdent("Sprintln")}, Args: rw.exprs(e.Args, ctxR), Ellipsis: e.Ellipsis})
			case "fmt.Printf", "fmt.Println", "fmt.Print":
				rw.count("main-stdout")
				rw.needFmt = true
				args := append([]ast.Expr{rw.call("Stdout")}, rw.exprs(e.Args, ctxR)...)
				return &ast.CallExpr{Fun: &ast.SelectorExpr{X: ast.NewIdent("fmt"), Sel: ast.NewIdent("F" + strings.ToLower(name[0:1]) + name[1:])}, Args: args, Ellipsis: e.Ellipsis}
			}
		}
	}
	return &ast.CallExpr{Fun: rw.expr(e.Fun, ctxR), Lparen: e.Lparen, Args: rw.exprs(e.Args, ctxR), Ellipsis: e.Ellipsis, Rparen: e.Rparen}
}

func (rw *rewriter) builtin(e *ast.CallExpr, name string) ast.Expr {
	plain := func() ast.Expr {
		return &ast.CallExpr{Fun: e.Fun, Lparen: e.Lparen, Args: rw.exprs(e.Args, ctxR), Ellipsis: e.Ellipsis, Rparen: e.Rparen}
	}
	switch name {
	case "new":
		return e
	case "make":
		if ct, ok := e.Args[0].(*ast.ChanType); ok && rw.opts.Sync {
			rw.count("chan-make")
			var n ast.Expr = &ast.BasicLit{Kind: token.INT, Value: "0"}
			if len(e.Args) > 1 {
				n = rw.expr(e.Args[1], ctxR)
			}
			fun := &ast.IndexExpr{X: rw.rt("MakeChan"), Index: ct.Value}
			return &ast.CallExpr{Fun: fun, Args: []ast.Expr{n, rw.site(e)}}
		} else if rw.isChanType(e.Args[0]) && rw.opts.Sync {
			rw.unmodelled(e, "make of named channel type")
		}
		args := []ast.Expr{e.Args[0]}
		args = append(args, rw.exprs(e.Args[1:], ctxR)...)
		return &ast.CallExpr{Fun: e.Fun, Args: args}
	case "close":
		if rw.opts.Sync {
			rw.count("chan-close")
			return rw.call("Close", rw.expr(e.Args[0], ctxR), rw.site(e))
		}
	case "len", "cap":
		if rw.isChan(e.Args[0]) && rw.opts.Sync {
			fn := "ChanLen"
			if name == "cap" {
				fn = "ChanCap"
			}
			return rw.call(fn, rw.expr(e.Args[0], ctxR))
		}
		if rw.isMap(e.Args[0]) && rw.opts.Access {
			rw.count("access-MapR")
			return &ast.CallExpr{Fun: e.Fun, Args: []ast.Expr{rw.call("MapR", rw.expr(e.Args[0], ctxR), rw.site(e))}}
		}
	case "delete", "clear":
		if rw.isMap(e.Args[0]) && rw.opts.Access {
			rw.count("access-MapW")
			args := []ast.Expr{rw.call("MapW", rw.expr(e.Args[0], ctxR), rw.site(e))}
			args = append(args, rw.exprs(e.Args[1:], ctxR)...)
			return &ast.CallExpr{Fun: e.Fun, Args: args}
		}
	}
	return plain()
}

func (rw *rewriter) isChanType(e ast.Expr) bool {
	tv, ok := rw.info.Types[e]
	if !ok || !tv.IsType() {
		return false
	}
	_, isC := tv.Type.Underlying().(*types.Chan)
	return isC
}
