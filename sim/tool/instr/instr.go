// Package instr rewrites Go source of the tree under test (in a scratch copy)
// so that every source of nondeterminism and every shared-memory access goes
// through verifsim/simrt. See DESIGN.md section 3.1 for the rule table.
package instr

import (
	"bytes"
	"fmt"
	"go/ast"
	"go/format"
	"go/token"
	"go/types"
	"os"
	"path/filepath"
	"sort"
	"strconv"
	"strings"

	"golang.org/x/tools/go/packages"
)

// Opts selects the rewrites applied to one package.
type Opts struct {
	Maps   bool // map range order seam
	Yields bool // Yield at function entries and loop heads
	Sync   bool // go statements, Mutex/RWMutex/WaitGroup, channels, select
	Time   bool // time.Now/Since/Sleep/After, context.WithTimeout/WithDeadline
	Access bool // access events: fields, derefs, globals, captured variables, maps
	Elems  bool // access events for slice/array elements too
	// NoFields restricts Access to maps, package-level variables and captured
	// variables (no field selectors, no pointer dereferences): for hot code
	// whose structs are covered by other means.
	NoFields bool
	Main     bool // package main: log.Fatal*, os.Exit, fmt.Print* ; main renamed to Main, package renamed
	// MainPkgName is the new package name when Main is set.
	MainPkgName string
}

// Module is one module directory to load and the packages in it to rewrite.
type Module struct {
	Dir  string
	Pkgs map[string]Opts // import path -> options
}

// Result reports what was done.
type Result struct {
	Sites      []string       // site id -> "pkg/file.go:line"
	Rewrites   map[string]int // rule -> count
	Unmodelled []string       // constructs left as they are
	Files      int
}

type instrumenter struct {
	res      *Result
	fset     *token.FileSet
	instrPkg map[string]bool // import paths of instrumented packages (for foreign-global filtering)
}

// Run instruments the modules in place. env is the environment for `go list`.
func Run(mods []Module, env []string) (*Result, error) {
	in := &instrumenter{res: &Result{Sites: []string{"harness"}, Rewrites: map[string]int{}}, instrPkg: map[string]bool{}}
	for _, m := range mods {
		for p := range m.Pkgs {
			in.instrPkg[p] = true
		}
	}
	for _, m := range mods {
		if err := in.module(m, env); err != nil {
			return nil, err
		}
	}
	sort.Strings(in.res.Unmodelled)
	return in.res, nil
}

func (in *instrumenter) module(m Module, env []string) error {
	fset := token.NewFileSet()
	in.fset = fset
	cfg := &packages.Config{
		Mode: packages.NeedName | packages.NeedFiles | packages.NeedCompiledGoFiles | packages.NeedImports | packages.NeedDeps |
			packages.NeedTypes | packages.NeedSyntax | packages.NeedTypesInfo | packages.NeedTypesSizes,
		Dir: m.Dir, Env: env, Fset: fset, Tests: false,
	}
	var pats []string
	for p := range m.Pkgs {
		pats = append(pats, p)
	}
	sort.Strings(pats)
	pkgs, err := packages.Load(cfg, pats...)
	if err != nil {
		return fmt.Errorf("loading %s: %w", m.Dir, err)
	}
	seen := map[string]bool{}
	for _, p := range pkgs {
		if len(p.Errors) > 0 {
			var sb strings.Builder
			for _, e := range p.Errors {
				fmt.Fprintf(&sb, "  %v\n", e)
			}
			return fmt.Errorf("package %s does not type-check:\n%s", p.PkgPath, sb.String())
		}
		opts, ok := m.Pkgs[p.PkgPath]
		if !ok {
			continue
		}
		seen[p.PkgPath] = true
		if err := in.pkg(p, opts); err != nil {
			return err
		}
	}
	for p := range m.Pkgs {
		if !seen[p] {
			return fmt.Errorf("package %s not found in %s", p, m.Dir)
		}
	}
	return nil
}

type ctxKind int

const (
	ctxR ctxKind = iota
	ctxW
	ctxRW
	ctxPlace
)

type rewriter struct {
	in       *instrumenter
	pkg      *packages.Package
	info     *types.Info
	opts     Opts
	file     *ast.File
	fname    string
	captured map[*types.Var]bool
	funcs    []ast.Node // enclosing FuncDecl/FuncLit stack
	used     bool       // simrt referenced in this file
	tmpN     int
	needFmt  bool
}

func (in *instrumenter) pkg(p *packages.Package, opts Opts) error {
	// captured variables: used inside a FuncLit that does not declare them
	captured := map[*types.Var]bool{}
	for _, f := range p.Syntax {
		var stack []ast.Node
		ast.Inspect(f, func(n ast.Node) bool {
			if n == nil {
				stack = stack[:len(stack)-1]
				return true
			}
			stack = append(stack, n)
			id, ok := n.(*ast.Ident)
			if !ok {
				return true
			}
			v, ok := p.TypesInfo.Uses[id].(*types.Var)
			if !ok || v.IsField() || v.Pkg() == nil || v.Parent() == v.Pkg().Scope() {
				return true
			}
			// innermost FuncLit on the stack
			for i := len(stack) - 1; i >= 0; i-- {
				if fl, ok := stack[i].(*ast.FuncLit); ok {
					if v.Pos() < fl.Pos() || v.Pos() >= fl.End() {
						captured[v] = true
					}
					break
				}
			}
			return true
		})
	}
	for i, f := range p.Syntax {
		fname := p.CompiledGoFiles[i]
		if strings.HasSuffix(fname, "_test.go") {
			continue
		}
		rw := &rewriter{in: in, pkg: p, info: p.TypesInfo, opts: opts, file: f, fname: fname, captured: captured}
		if err := rw.rewriteFile(); err != nil {
			return fmt.Errorf("%s: %w", fname, err)
		}
		in.res.Files++
	}
	return nil
}

func (rw *rewriter) count(rule string) { rw.in.res.Rewrites[rule]++ }

// siteExpr is like site but names the accessed expression too.
func (rw *rewriter) siteExpr(n ast.Node, loc ast.Expr) ast.Expr {
	lit := rw.site(n).(*ast.BasicLit)
	txt := types.ExprString(loc)
	if len(txt) > 60 {
		txt = txt[:60]
	}
	if !strings.Contains(txt, "simrt.") {
		i := len(rw.in.res.Sites) - 1
		rw.in.res.Sites[i] += " " + txt
	}
	return lit
}

func (rw *rewriter) site(n ast.Node) ast.Expr {
	pos := rw.in.fset.Position(n.Pos())
	short := rw.pkg.PkgPath
	if i := strings.LastIndex(short, "/"); i >= 0 {
		short = short[i+1:]
	}
	name := fmt.Sprintf("%s/%s:%d", short, filepath.Base(pos.Filename), pos.Line)
	rw.in.res.Sites = append(rw.in.res.Sites, name)
	return &ast.BasicLit{Kind: token.INT, Value: strconv.Itoa(len(rw.in.res.Sites) - 1)}
}

func (rw *rewriter) rt(fn string) ast.Expr {
	rw.used = true
	return &ast.SelectorExpr{X: ast.NewIdent("simrt"), Sel: ast.NewIdent(fn)}
}

func (rw *rewriter) call(fn string, args ...ast.Expr) *ast.CallExpr {
	return &ast.CallExpr{Fun: rw.rt(fn), Args: args}
}

func (rw *rewriter) tmp(prefix string) *ast.Ident {
	rw.tmpN++
	return ast.NewIdent(fmt.Sprintf("_sim%s%d", prefix, rw.tmpN))
}

func (rw *rewriter) unmodelled(n ast.Node, what string) {
	pos := rw.in.fset.Position(n.Pos())
	rw.in.res.Unmodelled = append(rw.in.res.Unmodelled, fmt.Sprintf("%s at %s:%d", what, filepath.Base(pos.Filename), pos.Line))
}

func (rw *rewriter) rewriteFile() error {
	f := rw.file
	for _, d := range f.Decls {
		switch d := d.(type) {
		case *ast.FuncDecl:
			if d.Body != nil {
				rw.funcs = append(rw.funcs, d)
				d.Body = rw.funcBody(d.Body, d)
				rw.funcs = rw.funcs[:len(rw.funcs)-1]
			}
			if rw.opts.Main && d.Recv == nil && d.Name.Name == "main" {
				d.Name = ast.NewIdent("Main")
			}
		case *ast.GenDecl:
			if d.Tok == token.VAR {
				for _, s := range d.Specs {
					vs := s.(*ast.ValueSpec)
					for i, v := range vs.Values {
						vs.Values[i] = rw.expr(v, ctxR)
					}
				}
			}
		}
	}
	if rw.opts.Main && rw.opts.MainPkgName != "" {
		f.Name = ast.NewIdent(rw.opts.MainPkgName)
	}
	// note unmodelled synchronisation types
	ast.Inspect(f, func(n ast.Node) bool {
		sel, ok := n.(*ast.SelectorExpr)
		if !ok {
			return true
		}
		if id, ok := sel.X.(*ast.Ident); ok {
			if pn, ok := rw.info.Uses[id].(*types.PkgName); ok {
				path := pn.Imported().Path()
				if (path == "sync/atomic" && !modelledAtomic[sel.Sel.Name]) || (path == "sync" && (sel.Sel.Name == "Map" || sel.Sel.Name == "OnceFunc" || sel.Sel.Name == "OnceValue")) {
					if rw.opts.Sync || rw.opts.Access {
						rw.unmodelled(sel, path+"."+sel.Sel.Name)
					}
				}
			}
		}
		return true
	})
	// comments: keep only directives; positions of rewritten nodes are gone
	var keep []*ast.CommentGroup
	for _, cg := range f.Comments {
		var kl []*ast.Comment
		for _, c := range cg.List {
			if strings.HasPrefix(c.Text, "//go:") || strings.HasPrefix(c.Text, "// +build") {
				kl = append(kl, c)
			}
		}
		if len(kl) > 0 {
			keep = append(keep, &ast.CommentGroup{List: kl})
		}
	}
	f.Comments = keep
	f.Doc = nil
	ast.Inspect(f, func(n ast.Node) bool {
		switch x := n.(type) {
		case *ast.FuncDecl:
			x.Doc = nil
		case *ast.GenDecl:
			x.Doc = nil
		case *ast.Field:
			x.Doc, x.Comment = nil, nil
		case *ast.ValueSpec:
			x.Doc, x.Comment = nil, nil
		case *ast.TypeSpec:
			x.Doc, x.Comment = nil, nil
		case *ast.ImportSpec:
			x.Doc, x.Comment = nil, nil
		}
		return true
	})
	if rw.used {
		addImport(f, "simrt", "verifsim/simrt")
	}
	if rw.needFmt {
		if !hasImport(f, "fmt") {
			addImport(f, "", "fmt")
		}
	}
	rw.dropUnusedImports()
	var buf bytes.Buffer
	if err := format.Node(&buf, rw.in.fset, f); err != nil {
		return fmt.Errorf("printing: %w", err)
	}
	return os.WriteFile(rw.fname, buf.Bytes(), 0o644)
}

func hasImport(f *ast.File, path string) bool {
	for _, im := range f.Imports {
		if p, _ := strconv.Unquote(im.Path.Value); p == path {
			return true
		}
	}
	return false
}

func addImport(f *ast.File, name, path string) {
	spec := &ast.ImportSpec{Path: &ast.BasicLit{Kind: token.STRING, Value: strconv.Quote(path)}}
	if name != "" {
		spec.Name = ast.NewIdent(name)
	}
	decl := &ast.GenDecl{Tok: token.IMPORT, Specs: []ast.Spec{spec}}
	f.Decls = append([]ast.Decl{decl}, f.Decls...)
	f.Imports = append(f.Imports, spec)
}

func (rw *rewriter) dropUnusedImports() {
	f := rw.file
	usedNames := map[string]bool{}
	ast.Inspect(f, func(n ast.Node) bool {
		if sel, ok := n.(*ast.SelectorExpr); ok {
			if id, ok := sel.X.(*ast.Ident); ok {
				usedNames[id.Name] = true
			}
		}
		return true
	})
	for _, d := range f.Decls {
		gd, ok := d.(*ast.GenDecl)
		if !ok || gd.Tok != token.IMPORT {
			continue
		}
		for _, s := range gd.Specs {
			is := s.(*ast.ImportSpec)
			if is.Name != nil && (is.Name.Name == "_" || is.Name.Name == ".") {
				continue
			}
			path, _ := strconv.Unquote(is.Path.Value)
			local := ""
			if is.Name != nil {
				local = is.Name.Name
			} else if ip, ok := rw.pkg.Imports[path]; ok {
				local = ip.Name
			} else {
				local = path[strings.LastIndex(path, "/")+1:]
			}
			if !usedNames[local] {
				is.Name = ast.NewIdent("_")
			}
		}
	}
}

// ---------------------------------------------------------------------------
// statements

func (rw *rewriter) yieldStmt(n ast.Node) ast.Stmt {
	rw.count("yield")
	return &ast.ExprStmt{X: rw.call("Yield", rw.site(n))}
}

func (rw *rewriter) funcBody(b *ast.BlockStmt, fn ast.Node) *ast.BlockStmt {
	nb := rw.block(b)
	if rw.opts.Yields {
		nb.List = append([]ast.Stmt{rw.yieldStmt(fn)}, nb.List...)
	}
	return nb
}

func (rw *rewriter) loopBody(b *ast.BlockStmt, loop ast.Node) *ast.BlockStmt {
	nb := rw.block(b)
	if rw.opts.Yields {
		nb.List = append([]ast.Stmt{rw.yieldStmt(loop)}, nb.List...)
	}
	return nb
}

func (rw *rewriter) block(b *ast.BlockStmt) *ast.BlockStmt {
	if b == nil {
		return nil
	}
	nb := &ast.BlockStmt{Lbrace: b.Lbrace, Rbrace: b.Rbrace}
	nb.List = rw.stmts(b.List)
	return nb
}

func (rw *rewriter) stmts(l []ast.Stmt) []ast.Stmt {
	var out []ast.Stmt
	for _, s := range l {
		out = append(out, rw.stmt(s))
	}
	return out
}

func (rw *rewriter) isChan(e ast.Expr) bool {
	t := rw.info.TypeOf(e)
	if t == nil {
		return false
	}
	_, ok := t.Underlying().(*types.Chan)
	return ok
}

func (rw *rewriter) isMap(e ast.Expr) bool {
	t := rw.info.TypeOf(e)
	if t == nil {
		return false
	}
	_, ok := t.Underlying().(*types.Map)
	return ok
}

func isRecv(e ast.Expr) *ast.UnaryExpr {
	for {
		p, ok := e.(*ast.ParenExpr)
		if !ok {
			break
		}
		e = p.X
	}
	if u, ok := e.(*ast.UnaryExpr); ok && u.Op == token.ARROW {
		return u
	}
	return nil
}

func (rw *rewriter) stmt(s ast.Stmt) ast.Stmt {
	switch s := s.(type) {
	case nil:
		return nil
	case *ast.ExprStmt:
		return &ast.ExprStmt{X: rw.expr(s.X, ctxR)}
	case *ast.SendStmt:
		if rw.opts.Sync {
			rw.count("chan-send")
			return &ast.ExprStmt{X: rw.call("Send", rw.expr(s.Chan, ctxR), rw.expr(s.Value, ctxR), rw.site(s))}
		}
		return &ast.SendStmt{Chan: rw.expr(s.Chan, ctxR), Arrow: s.Arrow, Value: rw.expr(s.Value, ctxR)}
	case *ast.IncDecStmt:
		return &ast.IncDecStmt{X: rw.expr(s.X, ctxRW), TokPos: s.TokPos, Tok: s.Tok}
	case *ast.AssignStmt:
		return rw.assign(s)
	case *ast.GoStmt:
		return rw.goStmt(s)
	case *ast.DeferStmt:
		c := rw.expr(s.Call, ctxR)
		if ce, ok := c.(*ast.CallExpr); ok {
			return &ast.DeferStmt{Defer: s.Defer, Call: ce}
		}
		return &ast.DeferStmt{Defer: s.Defer, Call: &ast.CallExpr{Fun: &ast.FuncLit{Type: &ast.FuncType{Params: &ast.FieldList{}}, Body: &ast.BlockStmt{List: []ast.Stmt{&ast.ExprStmt{X: c}}}}}}
	case *ast.ReturnStmt:
		ns := &ast.ReturnStmt{Return: s.Return}
		for _, r := range s.Results {
			ns.Results = append(ns.Results, rw.expr(r, ctxR))
		}
		return ns
	case *ast.BranchStmt, *ast.EmptyStmt:
		return s
	case *ast.BlockStmt:
		return rw.block(s)
	case *ast.IfStmt:
		ns := &ast.IfStmt{If: s.If, Init: rw.stmt(s.Init), Cond: rw.expr(s.Cond, ctxR), Body: rw.block(s.Body)}
		if s.Else != nil {
			ns.Else = rw.stmt(s.Else)
		}
		return ns
	case *ast.CaseClause:
		ns := &ast.CaseClause{Case: s.Case, Colon: s.Colon}
		for _, e := range s.List {
			if tv, ok := rw.info.Types[e]; ok && tv.IsType() {
				ns.List = append(ns.List, e)
			} else {
				ns.List = append(ns.List, rw.expr(e, ctxR))
			}
		}
		ns.Body = rw.stmts(s.Body)
		return ns
	case *ast.SwitchStmt:
		ns := &ast.SwitchStmt{Switch: s.Switch, Init: rw.stmt(s.Init), Body: rw.block(s.Body)}
		if s.Tag != nil {
			ns.Tag = rw.expr(s.Tag, ctxR)
		}
		return ns
	case *ast.TypeSwitchStmt:
		ns := &ast.TypeSwitchStmt{Switch: s.Switch, Init: rw.stmt(s.Init), Body: rw.block(s.Body)}
		switch a := s.Assign.(type) {
		case *ast.AssignStmt:
			ta := a.Rhs[0].(*ast.TypeAssertExpr)
			ns.Assign = &ast.AssignStmt{Lhs: a.Lhs, Tok: a.Tok, Rhs: []ast.Expr{&ast.TypeAssertExpr{X: rw.expr(ta.X, ctxR), Type: nil}}}
		case *ast.ExprStmt:
			ta := a.X.(*ast.TypeAssertExpr)
			ns.Assign = &ast.ExprStmt{X: &ast.TypeAssertExpr{X: rw.expr(ta.X, ctxR), Type: nil}}
		}
		return ns
	case *ast.LabeledStmt:
		return &ast.LabeledStmt{Label: s.Label, Colon: s.Colon, Stmt: rw.stmt(s.Stmt)}
	case *ast.DeclStmt:
		gd := s.Decl.(*ast.GenDecl)
		if gd.Tok == token.VAR {
			for _, sp := range gd.Specs {
				vs := sp.(*ast.ValueSpec)
				if len(vs.Names) == 2 && len(vs.Values) == 1 && rw.opts.Sync {
					if u := isRecv(vs.Values[0]); u != nil {
						rw.count("chan-recv2")
						vs.Values[0] = rw.call("Recv2", rw.expr(u.X, ctxR), rw.site(u))
						continue
					}
				}
				for i, v := range vs.Values {
					vs.Values[i] = rw.expr(v, ctxR)
				}
			}
		}
		return s
	case *ast.ForStmt:
		ns := &ast.ForStmt{For: s.For, Init: rw.stmt(s.Init), Post: rw.stmt(s.Post)}
		if s.Cond != nil {
			ns.Cond = rw.expr(s.Cond, ctxR)
		}
		ns.Body = rw.loopBody(s.Body, s)
		return ns
	case *ast.RangeStmt:
		return rw.rangeStmt(s)
	case *ast.SelectStmt:
		return rw.selectStmt(s)
	case *ast.CommClause:
		// only reachable when Sync is off
		ns := &ast.CommClause{Case: s.Case, Colon: s.Colon, Comm: rw.stmt(s.Comm), Body: rw.stmts(s.Body)}
		return ns
	}
	panic(fmt.Sprintf("instr: unhandled statement %T", s))
}

func isBlank(e ast.Expr) bool {
	id, ok := e.(*ast.Ident)
	return ok && id.Name == "_"
}

func (rw *rewriter) assign(s *ast.AssignStmt) ast.Stmt {
	ns := &ast.AssignStmt{TokPos: s.TokPos, Tok: s.Tok}
	// right-hand sides
	if len(s.Lhs) == 2 && len(s.Rhs) == 1 && rw.opts.Sync && isRecv(s.Rhs[0]) != nil {
		u := isRecv(s.Rhs[0])
		rw.count("chan-recv2")
		ns.Rhs = []ast.Expr{rw.call("Recv2", rw.expr(u.X, ctxR), rw.site(u))}
	} else {
		for _, r := range s.Rhs {
			ns.Rhs = append(ns.Rhs, rw.expr(r, ctxR))
		}
	}
	for _, l := range s.Lhs {
		switch {
		case isBlank(l):
			ns.Lhs = append(ns.Lhs, l)
		case s.Tok == token.DEFINE:
			ns.Lhs = append(ns.Lhs, l) // identifiers only; redeclared captured variables are a known miss
		case s.Tok == token.ASSIGN:
			ns.Lhs = append(ns.Lhs, rw.expr(l, ctxW))
		default:
			ns.Lhs = append(ns.Lhs, rw.expr(l, ctxRW))
		}
	}
	return ns
}

func (rw *rewriter) goStmt(s *ast.GoStmt) ast.Stmt {
	if !rw.opts.Sync {
		c := rw.expr(s.Call, ctxR)
		return &ast.GoStmt{Go: s.Go, Call: c.(*ast.CallExpr)}
	}
	rw.count("go")
	site := rw.site(s)
	var pre []ast.Stmt
	call := &ast.CallExpr{Ellipsis: s.Call.Ellipsis}
	// function value
	switch fn := s.Call.Fun.(type) {
	case *ast.FuncLit:
		call.Fun = rw.expr(fn, ctxR)
	default:
		if tv, ok := rw.info.Types[s.Call.Fun]; ok && (tv.IsBuiltin() || tv.IsType()) {
			call.Fun = s.Call.Fun
		} else if id, ok := s.Call.Fun.(*ast.Ident); ok && rw.isPkgFunc(id) {
			call.Fun = id
		} else {
			t := rw.tmp("f")
			pre = append(pre, &ast.AssignStmt{Lhs: []ast.Expr{t}, Tok: token.DEFINE, Rhs: []ast.Expr{rw.expr(s.Call.Fun, ctxR)}})
			call.Fun = t
		}
	}
	for _, a := range s.Call.Args {
		tv := rw.info.Types[a]
		if tv.Value != nil || tv.IsNil() {
			call.Args = append(call.Args, a) // constants and nil are pure
			continue
		}
		t := rw.tmp("a")
		pre = append(pre, &ast.AssignStmt{Lhs: []ast.Expr{t}, Tok: token.DEFINE, Rhs: []ast.Expr{rw.expr(a, ctxR)}})
		call.Args = append(call.Args, t)
	}
	body := &ast.FuncLit{Type: &ast.FuncType{Params: &ast.FieldList{}}, Body: &ast.BlockStmt{List: []ast.Stmt{&ast.ExprStmt{X: call}}}}
	pre = append(pre, &ast.ExprStmt{X: rw.call("Go", site, body)})
	return &ast.BlockStmt{List: pre}
}

func (rw *rewriter) isPkgFunc(id *ast.Ident) bool {
	f, ok := rw.info.Uses[id].(*types.Func)
	return ok && f.Pkg() != nil && f.Parent() == f.Pkg().Scope()
}

func pureExpr(e ast.Expr) bool {
	switch e := e.(type) {
	case *ast.Ident:
		return true
	case *ast.SelectorExpr:
		return pureExpr(e.X)
	case *ast.ParenExpr:
		return pureExpr(e.X)
	case *ast.StarExpr:
		return pureExpr(e.X)
	}
	return false
}

func (rw *rewriter) rangeStmt(s *ast.RangeStmt) ast.Stmt {
	xt := rw.info.TypeOf(s.X)
	if xt != nil {
		switch xt.Underlying().(type) {
		case *types.Map:
			if rw.opts.Maps {
				return rw.rangeMap(s)
			}
		case *types.Chan:
			if rw.opts.Sync {
				return rw.rangeChan(s)
			}
		}
	}
	ns := &ast.RangeStmt{For: s.For, Key: s.Key, Value: s.Value, TokPos: s.TokPos, Tok: s.Tok, Range: s.Range, X: rw.expr(s.X, ctxR)}
	ns.Body = rw.loopBody(s.Body, s)
	return ns
}

// for k, v := range m  =>  for _, k := range simrt.MapKeys(m, site) { v, ok := m[k]; if !ok { continue }; body }
func (rw *rewriter) rangeMap(s *ast.RangeStmt) ast.Stmt {
	rw.count("map-range")
	if !pureExpr(s.X) {
		// evaluate the map expression once
		// (a labelled loop cannot be wrapped in a block; none exists in the tree)
		mt := rw.tmp("m")
		inner := *s
		inner.X = mt
		// type info for the temp: reuse the original expression's type via a side table
		rw.info.Types[mt] = rw.info.Types[s.X]
		return &ast.BlockStmt{List: []ast.Stmt{
			&ast.AssignStmt{Lhs: []ast.Expr{mt}, Tok: token.DEFINE, Rhs: []ast.Expr{rw.expr(s.X, ctxR)}},
			rw.rangeMap(&inner),
		}}
	}
	site := rw.site(s)
	mExpr := func() ast.Expr { return rw.expr(s.X, ctxR) }
	keyVar := rw.tmp("k")
	okVar := rw.tmp("ok")
	var prelude []ast.Stmt
	hasKey := s.Key != nil && !isBlank(s.Key)
	hasVal := s.Value != nil && !isBlank(s.Value)
	lookup := func() ast.Expr {
		var m ast.Expr = mExpr()
		if rw.opts.Access {
			m = rw.call("MapR", m, rw.site(s))
		}
		return &ast.IndexExpr{X: m, Index: keyVar}
	}
	if s.Tok == token.DEFINE {
		if hasKey {
			prelude = append(prelude, &ast.AssignStmt{Lhs: []ast.Expr{s.Key}, Tok: token.DEFINE, Rhs: []ast.Expr{keyVar}})
		}
		if hasVal {
			prelude = append(prelude, &ast.AssignStmt{Lhs: []ast.Expr{s.Value, okVar}, Tok: token.DEFINE, Rhs: []ast.Expr{lookup()}})
		} else {
			prelude = append(prelude, &ast.AssignStmt{Lhs: []ast.Expr{ast.NewIdent("_"), okVar}, Tok: token.DEFINE, Rhs: []ast.Expr{lookup()}})
		}
	} else {
		if hasKey {
			prelude = append(prelude, &ast.AssignStmt{Lhs: []ast.Expr{rw.expr(s.Key, ctxW)}, Tok: token.ASSIGN, Rhs: []ast.Expr{keyVar}})
		}
		prelude = append(prelude, &ast.DeclStmt{Decl: &ast.GenDecl{Tok: token.VAR, Specs: []ast.Spec{&ast.ValueSpec{Names: []*ast.Ident{okVar}, Type: ast.NewIdent("bool")}}}})
		if hasVal {
			prelude = append(prelude, &ast.AssignStmt{Lhs: []ast.Expr{rw.expr(s.Value, ctxW), okVar}, Tok: token.ASSIGN, Rhs: []ast.Expr{lookup()}})
		} else {
			prelude = append(prelude, &ast.AssignStmt{Lhs: []ast.Expr{ast.NewIdent("_"), okVar}, Tok: token.ASSIGN, Rhs: []ast.Expr{lookup()}})
		}
	}
	prelude = append(prelude, &ast.IfStmt{Cond: &ast.UnaryExpr{Op: token.NOT, X: okVar}, Body: &ast.BlockStmt{List: []ast.Stmt{&ast.BranchStmt{Tok: token.CONTINUE}}}})
	body := rw.loopBody(s.Body, s)
	body.List = append(prelude, body.List...)
	return &ast.RangeStmt{For: s.For, Key: ast.NewIdent("_"), Value: keyVar, Tok: token.DEFINE, X: rw.call("MapKeys", mExpr(), site), Body: body}
}

// for v := range ch  =>  for { v, ok := simrt.Recv2(ch, site); if !ok { break }; body }
func (rw *rewriter) rangeChan(s *ast.RangeStmt) ast.Stmt {
	rw.count("chan-range")
	okVar := rw.tmp("ok")
	recv := rw.call("Recv2", rw.expr(s.X, ctxR), rw.site(s))
	var first ast.Stmt
	hasKey := s.Key != nil && !isBlank(s.Key)
	var extra []ast.Stmt
	switch {
	case !hasKey:
		first = &ast.AssignStmt{Lhs: []ast.Expr{ast.NewIdent("_"), okVar}, Tok: token.DEFINE, Rhs: []ast.Expr{recv}}
	case s.Tok == token.DEFINE:
		first = &ast.AssignStmt{Lhs: []ast.Expr{s.Key, okVar}, Tok: token.DEFINE, Rhs: []ast.Expr{recv}}
	default:
		tv := rw.tmp("v")
		first = &ast.AssignStmt{Lhs: []ast.Expr{tv, okVar}, Tok: token.DEFINE, Rhs: []ast.Expr{recv}}
		extra = append(extra, &ast.AssignStmt{Lhs: []ast.Expr{rw.expr(s.Key, ctxW)}, Tok: token.ASSIGN, Rhs: []ast.Expr{tv}})
	}
	brk := &ast.IfStmt{Cond: &ast.UnaryExpr{Op: token.NOT, X: okVar}, Body: &ast.BlockStmt{List: []ast.Stmt{&ast.BranchStmt{Tok: token.BREAK}}}}
	body := rw.loopBody(s.Body, s)
	body.List = append(append([]ast.Stmt{first, brk}, extra...), body.List...)
	return &ast.ForStmt{For: s.For, Body: body}
}

func (rw *rewriter) selectStmt(s *ast.SelectStmt) ast.Stmt {
	if !rw.opts.Sync {
		return &ast.SelectStmt{Select: s.Select, Body: rw.block(s.Body)}
	}
	rw.count("select")
	selVar := rw.tmp("sel")
	var cases []ast.Expr
	var clauses []ast.Stmt
	for i, c := range s.Body.List {
		cc := c.(*ast.CommClause)
		var pre []ast.Stmt
		switch comm := cc.Comm.(type) {
		case nil:
			cases = append(cases, rw.call("CaseDefault"))
		case *ast.SendStmt:
			cases = append(cases, rw.call("CaseSend", rw.expr(comm.Chan, ctxR), rw.expr(comm.Value, ctxR)))
		case *ast.ExprStmt:
			u := isRecv(comm.X)
			cases = append(cases, rw.call("CaseRecv", rw.expr(u.X, ctxR)))
		case *ast.AssignStmt:
			u := isRecv(comm.Rhs[0])
			chExpr := rw.expr(u.X, ctxR)
			cases = append(cases, rw.call("CaseRecv", chExpr))
			// the channel expression is needed again only for its element type
			chAgain := rw.expr(u.X, ctxPlace)
			val := rw.call("SelVal", chAgain, selVar)
			lhs0 := comm.Lhs[0]
			if comm.Tok == token.DEFINE {
				if !isBlank(lhs0) {
					pre = append(pre, &ast.AssignStmt{Lhs: []ast.Expr{lhs0}, Tok: token.DEFINE, Rhs: []ast.Expr{val}})
				}
				if len(comm.Lhs) == 2 && !isBlank(comm.Lhs[1]) {
					pre = append(pre, &ast.AssignStmt{Lhs: []ast.Expr{comm.Lhs[1]}, Tok: token.DEFINE, Rhs: []ast.Expr{&ast.SelectorExpr{X: selVar, Sel: ast.NewIdent("OK")}}})
				}
			} else {
				if !isBlank(lhs0) {
					pre = append(pre, &ast.AssignStmt{Lhs: []ast.Expr{rw.expr(lhs0, ctxW)}, Tok: token.ASSIGN, Rhs: []ast.Expr{val}})
				}
				if len(comm.Lhs) == 2 && !isBlank(comm.Lhs[1]) {
					pre = append(pre, &ast.AssignStmt{Lhs: []ast.Expr{rw.expr(comm.Lhs[1], ctxW)}, Tok: token.ASSIGN, Rhs: []ast.Expr{&ast.SelectorExpr{X: selVar, Sel: ast.NewIdent("OK")}}})
				}
			}
		}
		clauses = append(clauses, &ast.CaseClause{List: []ast.Expr{&ast.BasicLit{Kind: token.INT, Value: strconv.Itoa(i)}}, Body: append(pre, rw.stmts(cc.Body)...)})
	}
	// a select without default whose clauses all terminate is a terminating
	// statement; keep that property for the switch
	clauses = append(clauses, &ast.CaseClause{Body: []ast.Stmt{&ast.ExprStmt{X: &ast.CallExpr{Fun: ast.NewIdent("panic"), Args: []ast.Expr{&ast.BasicLit{Kind: token.STRING, Value: `"simrt: select returned no case"`}}}}}})
	args := append([]ast.Expr{rw.site(s)}, cases...)
	return &ast.SwitchStmt{
		Init: &ast.AssignStmt{Lhs: []ast.Expr{selVar}, Tok: token.DEFINE, Rhs: []ast.Expr{rw.call("Select", args...)}},
		Tag:  &ast.SelectorExpr{X: selVar, Sel: ast.NewIdent("Index")},
		Body: &ast.BlockStmt{List: clauses},
	}
}
