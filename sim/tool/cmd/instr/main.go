// Command instr is a development front end of the instrumenter:
//
//	instr -dir <module dir> [-all] pkg...
package main

import (
	"flag"
	"fmt"
	"os"
	"sort"

	"veriftool/instr"
)

func main() {
	dir := flag.String("dir", ".", "module directory")
	rt := flag.String("rt", "", "runtime copy to write the site table into")
	mainName := flag.String("main", "", "rename package main to this name")
	flag.Parse()
	pk := map[string]instr.Opts{}
	for _, p := range flag.Args() {
		o := instr.Opts{Maps: true, Yields: true, Sync: true, Time: true, Access: true}
		if *mainName != "" {
			o.Main, o.MainPkgName = true, *mainName
		}
		pk[p] = o
	}
	env := append(os.Environ(), "GOFLAGS=-mod=mod", "GOPROXY=off", "GOSUMDB=off", "GOTOOLCHAIN=local", "GOWORK=off")
	res, err := instr.Run([]instr.Module{{Dir: *dir, Pkgs: pk}}, env)
	if err != nil {
		fmt.Fprintln(os.Stderr, err)
		os.Exit(2)
	}
	if *rt != "" {
		if err := instr.WriteSiteTable(*rt, res); err != nil {
			fmt.Fprintln(os.Stderr, err)
			os.Exit(2)
		}
	}
	var ks []string
	for k := range res.Rewrites {
		ks = append(ks, k)
	}
	sort.Strings(ks)
	for _, k := range ks {
		fmt.Printf("%-24s %d\n", k, res.Rewrites[k])
	}
	fmt.Printf("files=%d sites=%d unmodelled=%v\n", res.Files, len(res.Sites), res.Unmodelled)
}
