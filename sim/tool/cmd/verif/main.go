// Command verif is the entry point registered in MANIFEST.json.
//
//	verif check <ID> [--tier quick|thorough]
//	verif replay <file>
package main

import (
	"encoding/json"
	"flag"
	"fmt"
	"os"
	"path/filepath"
	"strconv"

	"veriftool/runner"
	"veriftool/specs"
)

func main() {
	if len(os.Args) < 2 {
		usage()
	}
	verifDir := os.Getenv("VERIF_DIR")
	if verifDir == "" {
		exe, _ := os.Executable()
		verifDir = filepath.Dir(filepath.Dir(exe))
	}
	repoDir := os.Getenv("VERIF_REPO")
	if repoDir == "" {
		repoDir = "/repo"
	}
	seed := uint64(1)
	if s := os.Getenv("VERIF_SEED"); s != "" {
		if v, err := strconv.ParseUint(s, 10, 64); err == nil {
			seed = v
		} else if v, err := strconv.ParseInt(s, 10, 64); err == nil {
			seed = uint64(v)
		}
	}
	o := runner.Options{Seed: seed, VerifDir: verifDir, RepoDir: repoDir, Stdout: os.Stdout, Stderr: os.Stderr}
	if b := os.Getenv("VERIF_BUDGET_S"); b != "" {
		o.BudgetS, _ = strconv.ParseFloat(b, 64)
	}
	if b := os.Getenv("VERIF_RUNS_MUL"); b != "" {
		o.RunsMul, _ = strconv.ParseFloat(b, 64)
	}
	if b := os.Getenv("VERIF_WORKERS"); b != "" {
		o.Workers, _ = strconv.Atoi(b)
	}
	switch os.Args[1] {
	case "check":
		fs := flag.NewFlagSet("check", flag.ExitOnError)
		tier := fs.String("tier", "", "quick|thorough")
		fs.Parse(os.Args[3:])
		if len(os.Args) < 3 {
			usage()
		}
		o.Tier = *tier
		if o.Tier == "" {
			o.Tier = os.Getenv("VERIF_TIER")
		}
		if o.Tier == "" {
			o.Tier = "quick"
		}
		spec := specs.Get(os.Args[2])
		if spec == nil {
			fmt.Fprintf(os.Stderr, "unknown property %s\n", os.Args[2])
			os.Exit(2)
		}
		os.Exit(runner.Check(spec, o))
	case "selftest":
		if len(os.Args) < 3 {
			usage()
		}
		ids := os.Args[2:]
		if ids[0] == "all" {
			ids = specs.IDs()
		}
		runs := int64(40)
		if b := os.Getenv("VERIF_SELFTEST_RUNS"); b != "" {
			runs, _ = strconv.ParseInt(b, 10, 64)
		}
		rc := 0
		o.Tier = "quick"
		for _, id := range ids {
			spec := specs.Get(id)
			if spec == nil {
				fmt.Fprintf(os.Stderr, "unknown property %s\n", id)
				os.Exit(2)
			}
			if c := runner.SelfTestOnly(spec, o, runs); c != 0 {
				rc = c
			}
		}
		os.Exit(rc)
	case "replay":
		if len(os.Args) < 3 {
			usage()
		}
		b, err := os.ReadFile(os.Args[2])
		if err != nil {
			fmt.Fprintln(os.Stderr, err)
			os.Exit(2)
		}
		var rf struct {
			Property string `json:"property"`
		}
		if err := json.Unmarshal(b, &rf); err != nil {
			fmt.Fprintln(os.Stderr, err)
			os.Exit(2)
		}
		spec := specs.Get(rf.Property)
		if spec == nil {
			fmt.Fprintf(os.Stderr, "unknown property %q in replay file\n", rf.Property)
			os.Exit(2)
		}
		o.Tier = "quick"
		os.Exit(runner.Replay(spec, os.Args[2], o))
	default:
		usage()
	}
}

func usage() {
	fmt.Fprintln(os.Stderr, "usage: verif check <ID> [--tier quick|thorough] | verif replay <file> | verif selftest <ID...|all>")
	os.Exit(2)
}
