// Package runner builds a scratch copy of the tree under test, instruments it
// as the property requires, builds the property's harness against it, shards
// seeded runs over worker processes, and turns their reports into the
// evidence file, VIOLATION / KNOWN-FINDING lines and an exit status.
package runner

import (
	"bytes"
	"crypto/sha256"
	"encoding/hex"
	"encoding/json"
	"fmt"
	"io"
	"io/fs"
	"os"
	"os/exec"
	"path/filepath"
	"runtime"
	"sort"
	"strconv"
	"strings"
	"sync"
	"time"

	"veriftool/instr"
)

// Spec describes how one property is checked.
type Spec struct {
	ID         string
	Harness    string // directory under rt/harness
	Level      string // evidence level
	Rule       string // how cases are generated, what counts as distinct / non-trivial
	Assume     []string
	QuickRuns  int64
	ThorRuns   int64
	QuickCap   float64 // wall-clock cap per worker, seconds
	ThorCap    float64
	Shards     int
	Instrument func(sc *Scratch) error // nil: compile the tree unmodified
	ExtraArgs  func(sc *Scratch, tier string) []string
	// SelfTest runs before the workers (transparency / determinism checks);
	// an error is machinery trouble (exit 2).
	SelfTest   func(sc *Scratch, tier string) error
	MemLimitKB int64
	// RealBinaries: import paths (package main) built from an UNINSTRUMENTED
	// copy of the tree under test before instrumentation; the harness gets
	// -arg realbin.<base>=<path>.
	PlainHarness bool
	RealBinaries map[string]string // name -> "module dir relative to repo root|package path relative to module"
	// PlainHarness: also build the harness against an UNINSTRUMENTED copy of
	// the tree (real map iteration order, real runtime); the harness gets
	// -arg plainbin=<path>.
	// TestPkgs are packages of the tree under test whose own tests are run
	// against the instrumented copy before the workers start (transparency
	// self-test of the instrumenter).
	TestPkgs []string
	// NoEnumInSelfTest: the determinism self-test skips enumerated cases.
	DetRuns int64
}

// Scratch is a temporary build tree.
type Scratch struct {
	Dir      string // root
	Repo     string // copy of /repo working tree
	RT       string // copy of /verif/sim/rt
	Bin      string
	Replays  string
	VerifDir string
	RepoSrc  string
	TreeHash string
	Env      []string
}

const (
	ExitOK        = 0
	ExitViolation = 1
	ExitTrouble   = 2
)

func goEnv() []string {
	env := os.Environ()
	set := func(k, v string) {
		for i, e := range env {
			if strings.HasPrefix(e, k+"=") {
				env[i] = k + "=" + v
				return
			}
		}
		env = append(env, k+"="+v)
	}
	set("GOFLAGS", "-mod=mod")
	set("GOPROXY", "off")
	set("GOSUMDB", "off")
	set("GOTOOLCHAIN", "local")
	set("GOWORK", "off")
	return env
}

// NewScratch copies the working tree of repoSrc and the runtime sources.
func NewScratch(verifDir, repoSrc string) (*Scratch, error) {
	dir, err := os.MkdirTemp("", "verif-scratch-")
	if err != nil {
		return nil, err
	}
	sc := &Scratch{Dir: dir, Repo: filepath.Join(dir, "repo"), RT: filepath.Join(dir, "rt"), Bin: filepath.Join(dir, "bin"),
		Replays: filepath.Join(dir, "replays"), VerifDir: verifDir, RepoSrc: repoSrc, Env: goEnv()}
	h := sha256.New()
	if err := copyTree(repoSrc, sc.Repo, h, func(rel string, d fs.DirEntry) bool {
		return rel == ".git" || strings.HasPrefix(rel, ".git/")
	}); err != nil {
		sc.Remove()
		return nil, fmt.Errorf("copying %s: %w", repoSrc, err)
	}
	sc.TreeHash = hex.EncodeToString(h.Sum(nil))[:16]
	if err := copyTree(filepath.Join(verifDir, "sim", "rt"), sc.RT, nil, nil); err != nil {
		sc.Remove()
		return nil, err
	}
	for _, d := range []string{sc.Bin, sc.Replays} {
		if err := os.MkdirAll(d, 0o755); err != nil {
			sc.Remove()
			return nil, err
		}
	}
	return sc, nil
}

// Remove deletes the scratch tree and everything built in it.
func (sc *Scratch) Remove() {
	if sc != nil && sc.Dir != "" && os.Getenv("VERIF_KEEP_SCRATCH") == "" {
		os.RemoveAll(sc.Dir)
	}
}

func copyTree(src, dst string, h io.Writer, skip func(rel string, d fs.DirEntry) bool) error {
	return filepath.WalkDir(src, func(p string, d fs.DirEntry, err error) error {
		if err != nil {
			return err
		}
		rel, _ := filepath.Rel(src, p)
		if rel == "." {
			return os.MkdirAll(dst, 0o755)
		}
		if skip != nil && skip(rel, d) {
			if d.IsDir() {
				return filepath.SkipDir
			}
			return nil
		}
		t := filepath.Join(dst, rel)
		if d.IsDir() {
			return os.MkdirAll(t, 0o755)
		}
		if !d.Type().IsRegular() {
			return nil
		}
		b, err := os.ReadFile(p)
		if err != nil {
			return err
		}
		if h != nil {
			fmt.Fprintf(h, "%s\x00%d\x00", rel, len(b))
			h.Write(b)
		}
		return os.WriteFile(t, b, 0o644)
	})
}

// GoDiffDir returns the module cache directory of go-diff v1.1.0.
func GoDiffDir() (string, error) {
	out, err := exec.Command("go", "env", "GOMODCACHE").Output()
	if err != nil {
		return "", err
	}
	d := filepath.Join(strings.TrimSpace(string(out)), "github.com", "sergi", "go-diff@v1.1.0")
	if _, err := os.Stat(d); err != nil {
		return "", err
	}
	return d, nil
}

// WriteGoMod writes the harness module file with replace directives into the
// scratch copies. extraReplace maps module path to directory.
func (sc *Scratch) WriteGoMod(extraReplace map[string]string) error {
	var b strings.Builder
	b.WriteString("module verifsim\n\ngo 1.23\n\nrequire (\n")
	b.WriteString("\tgithub.com/anishathalye/porcupine v1.3.0\n")
	b.WriteString("\tgithub.com/google/licenseclassifier v0.0.0\n")
	b.WriteString("\tgithub.com/google/licenseclassifier/v2 v2.0.0\n")
	b.WriteString("\tgithub.com/sergi/go-diff v1.1.0\n")
	b.WriteString("\tgithub.com/davecgh/go-spew v1.1.1\n")
	b.WriteString("\tverifsim/simrt v0.0.0\n")
	b.WriteString(")\n\n")
	b.WriteString("replace verifsim/simrt => ./simrt\n\n")
	b.WriteString("replace github.com/google/licenseclassifier => ../repo\n\n")
	b.WriteString("replace github.com/google/licenseclassifier/v2 => ../repo/v2\n")
	keys := make([]string, 0, len(extraReplace))
	for k := range extraReplace {
		keys = append(keys, k)
	}
	sort.Strings(keys)
	for _, k := range keys {
		fmt.Fprintf(&b, "\nreplace %s => %s\n", k, extraReplace[k])
	}
	if err := os.WriteFile(filepath.Join(sc.RT, "go.mod"), []byte(b.String()), 0o644); err != nil {
		return err
	}
	// go.sum: union of the repository's own sums and the tool module's.
	var sum bytes.Buffer
	for _, f := range []string{filepath.Join(sc.RepoSrc, "go.sum"), filepath.Join(sc.RepoSrc, "v2", "go.sum"), filepath.Join(sc.VerifDir, "sim", "rt", "go.sum")} {
		if x, err := os.ReadFile(f); err == nil {
			sum.Write(x)
			if len(x) > 0 && x[len(x)-1] != '\n' {
				sum.WriteByte('\n')
			}
		}
	}
	return os.WriteFile(filepath.Join(sc.RT, "go.sum"), sum.Bytes(), 0o644)
}

// Build compiles one harness.
func (sc *Scratch) Build(harness string) (string, error) {
	out := filepath.Join(sc.Bin, harness)
	cmd := exec.Command("go", "build", "-trimpath", "-o", out, "./harness/"+harness)
	cmd.Dir = sc.RT
	cmd.Env = sc.Env
	var buf bytes.Buffer
	cmd.Stdout, cmd.Stderr = &buf, &buf
	if err := cmd.Run(); err != nil {
		return "", fmt.Errorf("go build ./harness/%s: %v\n%s", harness, err, buf.String())
	}
	return out, nil
}

// ---------------------------------------------------------------------------

type workerReport struct {
	Property     string           `json:"property"`
	Shard        int              `json:"shard"`
	Runs         int64            `json:"runs"`
	EnumRuns     int64            `json:"enum_runs"`
	EnumTotal    int64            `json:"enum_total"`
	Steps        int64            `json:"steps"`
	VirtualNS    int64            `json:"virtual_ns"`
	Counters     map[string]int64 `json:"counters"`
	Hashes       []uint64         `json:"hashes"`
	Nontrivial   int64            `json:"nontrivial"`
	Samples      []any            `json:"samples"`
	Found        []found          `json:"found"`
	WallS        float64          `json:"wall_s"`
	StoppedEarly bool             `json:"stopped_early"`
	Info         map[string]any   `json:"info"`
}

type found struct {
	Class   string `json:"class"`
	Oracle  string `json:"oracle"`
	Message string `json:"message"`
	Replay  string `json:"replay"`
	Count   int64  `json:"count"`
	Flaky   bool   `json:"flaky"`
}

// KnownFindings is /verif/known_findings.json.
type KnownFindings struct {
	Findings []Finding `json:"findings"`
}

type Finding struct {
	Property string `json:"property"`
	Status   string `json:"status"` // "known" | "fixed"
	Class    string `json:"class"`  // violation class signature (exact match)
	What     string `json:"what"`
	Commit   string `json:"commit,omitempty"`
	Record   string `json:"record,omitempty"` // "fixed: property=<id> <commit> <what failed>"
}

func LoadKnown(verifDir string) (*KnownFindings, error) {
	var k KnownFindings
	b, err := os.ReadFile(filepath.Join(verifDir, "known_findings.json"))
	if os.IsNotExist(err) {
		return &k, nil
	}
	if err != nil {
		return nil, err
	}
	if err := json.Unmarshal(b, &k); err != nil {
		return nil, fmt.Errorf("known_findings.json: %w", err)
	}
	return &k, nil
}

// Options for one check.
type Options struct {
	Tier     string
	Seed     uint64
	VerifDir string
	RepoDir  string
	Stdout   io.Writer
	Stderr   io.Writer
	Workers  int
	BudgetS  float64 // overrides the cap when > 0
	RunsMul  float64 // multiplies run counts when > 0
}

// Check runs one property check end to end and returns the exit status.
func Check(spec *Spec, o Options) int {
	start := time.Now()
	logf := func(f string, a ...any) { fmt.Fprintf(o.Stderr, "[verif %s] "+f+"\n", append([]any{spec.ID}, a...)...) }
	trouble := func(f string, a ...any) int {
		fmt.Fprintf(o.Stdout, "TROUBLE property=%s "+f+"\n", append([]any{spec.ID}, a...)...)
		return ExitTrouble
	}
	known, err := LoadKnown(o.VerifDir)
	if err != nil {
		return trouble("%v", err)
	}
	sc, err := NewScratch(o.VerifDir, o.RepoDir)
	if err != nil {
		return trouble("scratch: %v", err)
	}
	defer sc.Remove()
	logf("seed=%d tier=%s tree=%s scratch=%s", o.Seed, o.Tier, sc.TreeHash, sc.Dir)

	if err := sc.WriteGoMod(nil); err != nil {
		return trouble("go.mod: %v", err)
	}
	realArgs, err := sc.BuildReal(spec.RealBinaries)
	if err != nil {
		return trouble("build failed (the tree under test does not compile):\n%v", err)
	}
	if spec.PlainHarness {
		pa, err := sc.BuildPlain(spec.Harness)
		if err != nil {
			return trouble("build failed (the tree under test or the harness does not compile):\n%v", err)
		}
		realArgs = append(realArgs, pa...)
	}
	if spec.Instrument != nil {
		if err := spec.Instrument(sc); err != nil {
			return trouble("instrumentation failed: %v", err)
		}
	}
	bin, err := sc.Build(spec.Harness)
	if err != nil {
		return trouble("build failed (the tree under test or the harness does not compile):\n%v", err)
	}
	logf("built harness in %.1fs", time.Since(start).Seconds())
	var selfTests []string
	if spec.SelfTest != nil {
		if err := spec.SelfTest(sc, o.Tier); err != nil {
			return trouble("self-test failed: %v", err)
		}
	}
	if len(spec.TestPkgs) > 0 && os.Getenv("VERIF_SKIP_TRANSPARENCY") == "" {
		t0 := time.Now()
		err1 := sc.TestInstrumented(spec.TestPkgs)
		if err1 != nil {
			// once more: a tree whose own tests are flaky (they start real
			// goroutines) is not an instrumenter defect
			if err2 := sc.TestInstrumented(spec.TestPkgs); err2 != nil {
				return trouble("transparency self-test failed twice: the repository's own tests do not pass on the instrumented copy (instrumenter defect, or the tree under test fails its own tests):\n%v", err2)
			}
			logf("transparency self-test: failed once, passed on the second attempt (the tree's own tests are flaky):\n%v", err1)
			selfTests = append(selfTests, "transparency: the repository's own tests failed once and passed once on the instrumented copy (flaky tests in the tree under test)")
		} else {
			selfTests = append(selfTests, fmt.Sprintf("transparency: the repository's own tests of %v pass on the instrumented copy", spec.TestPkgs))
		}
		logf("transparency self-test: the repository's tests pass on the instrumented copy (%.1fs)", time.Since(t0).Seconds())
	}
	if o.Tier == "thorough" && os.Getenv("VERIF_SKIP_DETERMINISM") == "" {
		t0 := time.Now()
		if err := Determinism(spec, sc, bin, o, 24); err != nil {
			return trouble("determinism self-test failed: %v", err)
		}
		logf("determinism self-test passed (%.1fs)", time.Since(t0).Seconds())
		selfTests = append(selfTests, "determinism: 24 runs gave identical per-run digests in 6 process configurations (GOMAXPROCS 1/4/16, 1-3 shards)")
	}

	runs, cap := spec.QuickRuns, spec.QuickCap
	if o.Tier == "thorough" {
		runs, cap = spec.ThorRuns, spec.ThorCap
	}
	if o.RunsMul > 0 {
		runs = int64(float64(runs) * o.RunsMul)
	}
	if o.BudgetS > 0 {
		cap = o.BudgetS
	}
	shards := spec.Shards
	if shards == 0 {
		shards = runtime.NumCPU()
	}
	if o.Workers > 0 {
		shards = o.Workers
	}

	// known classes are not minimised by the workers
	knownFile := filepath.Join(sc.Dir, "known.txt")
	var kl []string
	for _, f := range known.Findings {
		if f.Property == spec.ID && f.Status == "known" {
			kl = append(kl, f.Class)
		}
	}
	os.WriteFile(knownFile, []byte(strings.Join(kl, "\n")+"\n"), 0o644)

	base := []string{"-seed", strconv.FormatUint(o.Seed, 10), "-nshards", strconv.Itoa(shards), "-runs", strconv.FormatInt(runs, 10),
		"-maxsec", fmt.Sprint(cap), "-tier", o.Tier, "-replaydir", sc.Replays, "-known", knownFile, "-arg", "repo=" + sc.Repo}
	if spec.ExtraArgs != nil {
		base = append(base, spec.ExtraArgs(sc, o.Tier)...)
	}
	base = append(base, realArgs...)
	reports := make([]*workerReport, shards)
	errs := make([]error, shards)
	var wg sync.WaitGroup
	for i := 0; i < shards; i++ {
		wg.Add(1)
		go func(i int) {
			defer wg.Done()
			out := filepath.Join(sc.Dir, fmt.Sprintf("report-%d.json", i))
			args := append(append([]string{}, base...), "-shard", strconv.Itoa(i), "-out", out)
			cmd := exec.Command(bin, args...)
			cmd.Dir = sc.Dir
			var buf bytes.Buffer
			cmd.Stdout, cmd.Stderr = &buf, &buf
			timer := time.AfterFunc(time.Duration((cap*3+600)*float64(time.Second)), func() { cmd.Process.Kill() })
			err := cmd.Run()
			timer.Stop()
			if err != nil {
				errs[i] = fmt.Errorf("worker %d: %v\n%s", i, err, tail(buf.String(), 6000))
				return
			}
			b, err := os.ReadFile(out)
			if err != nil {
				errs[i] = fmt.Errorf("worker %d wrote no report: %v\n%s", i, err, tail(buf.String(), 6000))
				return
			}
			var r workerReport
			if err := json.Unmarshal(b, &r); err != nil {
				errs[i] = fmt.Errorf("worker %d report: %v", i, err)
				return
			}
			reports[i] = &r
		}(i)
	}
	wg.Wait()
	for _, e := range errs {
		if e != nil {
			return trouble("%v", e)
		}
	}

	// ---- aggregate -----------------------------------------------------------
	agg := &workerReport{Counters: map[string]int64{}}
	hashes := map[uint64]struct{}{}
	foundBy := map[string]*found{}
	var classes []string
	for _, r := range reports {
		agg.Runs += r.Runs
		agg.EnumRuns += r.EnumRuns
		agg.EnumTotal = r.EnumTotal
		agg.Steps += r.Steps
		agg.VirtualNS += r.VirtualNS
		agg.Nontrivial += r.Nontrivial
		agg.StoppedEarly = agg.StoppedEarly || r.StoppedEarly
		for k, v := range r.Counters {
			agg.Counters[k] += v
		}
		for _, h := range r.Hashes {
			hashes[h] = struct{}{}
		}
		if len(agg.Samples) < 6 {
			agg.Samples = append(agg.Samples, r.Samples...)
		}
		if agg.Info == nil {
			agg.Info = r.Info
		}
		for _, f := range r.Found {
			if g, ok := foundBy[f.Class]; ok {
				g.Count += f.Count
			} else {
				ff := f
				foundBy[f.Class] = &ff
				classes = append(classes, f.Class)
			}
		}
	}
	sort.Strings(classes)

	// ---- classify violations --------------------------------------------------
	status := ExitOK
	violations := 0
	var knownSeen []string
	var lines []string
	var violRecords []map[string]any
	var unreproduced []string
	for _, cl := range classes {
		f := foundBy[cl]
		if kf := matchKnown(known, spec.ID, cl); kf != nil {
			knownSeen = append(knownSeen, cl)
			continue
		}
		// confirm by replaying in a fresh process
		if f.Replay == "" {
			return trouble("violation class %q has no replay file", cl)
		}
		code, outp := runReplay(bin, f.Replay, o.Tier)
		if f.Flaky {
			// the observation depends on nondeterminism outside the choice
			// stream: it is reported if any of several replays shows a violation
			for try := 0; try < 5 && code != 1 && code != 3; try++ {
				code, outp = runReplay(bin, f.Replay, o.Tier)
			}
			if code == 3 {
				code = 1
			}
			if code != 1 {
				unreproduced = append(unreproduced, cl)
				continue
			}
		}
		if code != 1 {
			return trouble("violation %q did not reproduce in a fresh process (replay exit %d); this is a simulator defect, not a finding\n%s\nworker message: %s", cl, code, tail(outp, 4000), f.Message)
		}
		dst := filepath.Join(o.VerifDir, "replays", filepath.Base(f.Replay))
		if err := copyFile(f.Replay, dst); err != nil {
			return trouble("cannot store replay file: %v", err)
		}
		violations++
		status = ExitViolation
		lines = append(lines, fmt.Sprintf("VIOLATION property=%s replay=%s", spec.ID, dst))
		lines = append(lines, fmt.Sprintf("  oracle=%s class=%q occurrences=%d\n  %s", f.Oracle, cl, f.Count, strings.ReplaceAll(f.Message, "\n", "\n  ")))
		violRecords = append(violRecords, map[string]any{"class": cl, "oracle": f.Oracle, "occurrences": f.Count, "replay": dst, "message": f.Message})
	}
	for _, kf := range known.Findings {
		if kf.Property != spec.ID || kf.Status != "known" {
			continue
		}
		seen := "not re-observed in this run"
		for _, c := range knownSeen {
			if c == kf.Class {
				seen = fmt.Sprintf("re-observed %d times in this run", foundBy[c].Count)
			}
		}
		lines = append(lines, fmt.Sprintf("KNOWN-FINDING: property=%s %s [class %q; %s]", spec.ID, kf.What, kf.Class, seen))
	}

	// ---- evidence --------------------------------------------------------------
	wall := time.Since(start).Seconds()
	evals := agg.Runs + agg.EnumRuns
	cov := map[string]any{
		"evaluations":                       evals,
		"distinct_nontrivial":               len(hashes),
		"rule":                              spec.Rule,
		"samples":                           agg.Samples,
		"seeded_runs":                       agg.Runs,
		"enumerated_cases":                  agg.EnumRuns,
		"enumerated_space":                  agg.EnumTotal,
		"exhaustive":                        false,
		"enumeration_complete":              agg.EnumTotal > 0 && agg.EnumRuns == agg.EnumTotal,
		"nontrivial_not_deduplicated":       agg.Nontrivial,
		"scheduling_points":                 agg.Steps,
		"simulated_time_ns":                 agg.VirtualNS,
		"runs_per_hour":                     int64(float64(evals) / wall * 3600),
		"fault_and_probe_counters":          agg.Counters,
		"workers":                           shards,
		"stopped_early_on_wall_clock_cap":   agg.StoppedEarly,
		"tree_hash":                         sc.TreeHash,
		"components":                        agg.Info,
		"known_findings_reobserved":         knownSeen,
		"violation_records":                 violRecords,
		"self_tests_passed_before_this_run": selfTests,
		"flaky_observations_not_reproduced_in_6_replays(not_reported)": unreproduced,
	}
	var zero []string
	for k, v := range agg.Counters {
		if strings.HasPrefix(k, "probe_") && v == 0 {
			zero = append(zero, k)
		}
	}
	sort.Strings(zero)
	cov["probes_stuck_at_zero"] = zero
	ev := map[string]any{
		"property_id": spec.ID, "tier": o.Tier, "seed": o.Seed, "level": spec.Level, "coverage": cov,
		"assumptions": spec.Assume, "wall_s": wall, "violations": violations,
	}
	evb, _ := json.MarshalIndent(ev, "", " ")
	evPath := filepath.Join(o.VerifDir, "evidence", spec.ID+".json")
	os.MkdirAll(filepath.Dir(evPath), 0o755)
	if err := os.WriteFile(evPath, append(evb, '\n'), 0o644); err != nil {
		return trouble("cannot write evidence: %v", err)
	}
	for _, l := range lines {
		fmt.Fprintln(o.Stdout, l)
	}
	for _, z := range zero {
		logf("warning: reach probe %s stuck at zero", z)
	}
	fmt.Fprintf(o.Stdout, "RESULT property=%s tier=%s seed=%d evaluations=%d distinct_nontrivial=%d violations=%d known_findings_reobserved=%d wall_s=%.1f\n",
		spec.ID, o.Tier, o.Seed, evals, len(hashes), violations, len(knownSeen), wall)
	return status
}

func matchKnown(k *KnownFindings, prop, class string) *Finding {
	for i := range k.Findings {
		f := &k.Findings[i]
		if f.Property == prop && f.Status == "known" && f.Class == class {
			return f
		}
	}
	return nil
}

func runReplay(bin, file, tier string) (int, string) {
	cmd := exec.Command(bin, "-replay", file, "-tier", tier)
	var buf bytes.Buffer
	cmd.Stdout, cmd.Stderr = &buf, &buf
	cmd.Env = os.Environ()
	err := cmd.Run()
	if err == nil {
		return 0, buf.String()
	}
	if ee, ok := err.(*exec.ExitError); ok {
		return ee.ExitCode(), buf.String()
	}
	return 2, buf.String() + err.Error()
}

func copyFile(src, dst string) error {
	b, err := os.ReadFile(src)
	if err != nil {
		return err
	}
	if err := os.MkdirAll(filepath.Dir(dst), 0o755); err != nil {
		return err
	}
	return os.WriteFile(dst, b, 0o644)
}

func tail(s string, n int) string {
	if len(s) <= n {
		return s
	}
	return "..." + s[len(s)-n:]
}

// Replay rebuilds from the current tree and replays one file. Exit 1 and a
// VIOLATION line when the recorded violation reproduces.
func Replay(spec *Spec, path string, o Options) int {
	sc, err := NewScratch(o.VerifDir, o.RepoDir)
	if err != nil {
		fmt.Fprintf(o.Stdout, "TROUBLE scratch: %v\n", err)
		return ExitTrouble
	}
	defer sc.Remove()
	if err := sc.WriteGoMod(nil); err != nil {
		fmt.Fprintf(o.Stdout, "TROUBLE go.mod: %v\n", err)
		return ExitTrouble
	}
	realArgs, err := sc.BuildReal(spec.RealBinaries)
	if err != nil {
		fmt.Fprintf(o.Stdout, "TROUBLE build failed: %v\n", err)
		return ExitTrouble
	}
	if spec.PlainHarness {
		pa, err := sc.BuildPlain(spec.Harness)
		if err != nil {
			fmt.Fprintf(o.Stdout, "TROUBLE build failed: %v\n", err)
			return ExitTrouble
		}
		realArgs = append(realArgs, pa...)
	}
	if spec.Instrument != nil {
		if err := spec.Instrument(sc); err != nil {
			fmt.Fprintf(o.Stdout, "TROUBLE instrumentation failed: %v\n", err)
			return ExitTrouble
		}
	}
	bin, err := sc.Build(spec.Harness)
	if err != nil {
		fmt.Fprintf(o.Stdout, "TROUBLE build failed: %v\n", err)
		return ExitTrouble
	}
	// the replay file records the scratch path of the tree it was found on;
	// point it at this scratch copy
	b, err := os.ReadFile(path)
	if err != nil {
		fmt.Fprintf(o.Stdout, "TROUBLE %v\n", err)
		return ExitTrouble
	}
	var rf map[string]any
	if err := json.Unmarshal(b, &rf); err != nil {
		fmt.Fprintf(o.Stdout, "TROUBLE %v\n", err)
		return ExitTrouble
	}
	args, _ := rf["args"].(map[string]any)
	if args == nil {
		args = map[string]any{}
	}
	args["repo"] = sc.Repo
	for i := 1; i < len(realArgs); i += 2 {
		if k, v, ok := strings.Cut(realArgs[i], "="); ok {
			args[k] = v
		}
	}
	rf["args"] = args
	nb, _ := json.Marshal(rf)
	tmp := filepath.Join(sc.Dir, "replay.json")
	os.WriteFile(tmp, nb, 0o644)
	cmd := exec.Command(bin, "-replay", tmp, "-tier", o.Tier, "-dumptrace")
	cmd.Stdout, cmd.Stderr = o.Stdout, o.Stderr
	err = cmd.Run()
	code := 0
	if ee, ok := err.(*exec.ExitError); ok {
		code = ee.ExitCode()
	} else if err != nil {
		code = 2
	}
	switch code {
	case 0:
		fmt.Fprintf(o.Stdout, "replay: clean on the current tree\n")
		return ExitOK
	case 1, 3:
		fmt.Fprintf(o.Stdout, "VIOLATION property=%s replay=%s\n", spec.ID, path)
		return ExitViolation
	}
	return ExitTrouble
}

// InstrumentPlan describes which packages of which module get which rewrites.
type InstrumentPlan struct {
	V1     map[string]instr.Opts // import path suffix relative to github.com/google/licenseclassifier ("" = root package)
	V2     map[string]instr.Opts // relative to github.com/google/licenseclassifier/v2
	GoDiff *instr.Opts           // diffmatchpatch
}

const (
	v1Path = "github.com/google/licenseclassifier"
	v2Path = "github.com/google/licenseclassifier/v2"
)

// Instrument applies the plan to the scratch tree.
func (sc *Scratch) Instrument(plan InstrumentPlan) (*instr.Result, error) {
	var mods []instr.Module
	patchMod := func(dir string, extra string) error {
		p := filepath.Join(dir, "go.mod")
		b, err := os.ReadFile(p)
		if err != nil {
			return err
		}
		lines := strings.Split(string(b), "\n")
		for i, l := range lines {
			if strings.HasPrefix(l, "go 1.") {
				lines[i] = "go 1.20"
			}
		}
		s := strings.Join(lines, "\n") + "\nrequire verifsim/simrt v0.0.0\n\nreplace verifsim/simrt => " + filepath.Join(sc.RT, "simrt") + "\n" + extra
		if err := os.WriteFile(p, []byte(s), 0o644); err != nil {
			return err
		}
		sum, _ := os.ReadFile(filepath.Join(sc.RT, "go.sum"))
		return os.WriteFile(filepath.Join(dir, "go.sum"), sum, 0o644)
	}
	repl := map[string]string{}
	godiffDir := filepath.Join(sc.Dir, "godiff")
	godiffRepl := ""
	if plan.GoDiff != nil {
		src, err := GoDiffDir()
		if err != nil {
			return nil, fmt.Errorf("go-diff v1.1.0 not in module cache: %w", err)
		}
		if err := copyTree(src, godiffDir, nil, nil); err != nil {
			return nil, err
		}
		godiffRepl = "\nreplace github.com/sergi/go-diff => " + godiffDir + "\n"
		repl["github.com/sergi/go-diff"] = godiffDir
		if err := patchMod(godiffDir, ""); err != nil {
			return nil, err
		}
		mods = append(mods, instr.Module{Dir: godiffDir, Pkgs: map[string]instr.Opts{"github.com/sergi/go-diff/diffmatchpatch": *plan.GoDiff}})
	}
	selfRepl := "\nreplace github.com/google/licenseclassifier => " + sc.Repo + "\n\nreplace github.com/google/licenseclassifier/v2 => " + filepath.Join(sc.Repo, "v2") + "\n"
	if len(plan.V2) > 0 {
		dir := filepath.Join(sc.Repo, "v2")
		if err := patchMod(dir, godiffRepl+"\nreplace github.com/google/licenseclassifier => "+sc.Repo+"\n"); err != nil {
			return nil, err
		}
		pk := map[string]instr.Opts{}
		for k, v := range plan.V2 {
			pk[joinPath(v2Path, k)] = v
		}
		mods = append(mods, instr.Module{Dir: dir, Pkgs: pk})
	}
	if len(plan.V1) > 0 {
		if err := patchMod(sc.Repo, godiffRepl+"\nreplace github.com/google/licenseclassifier/v2 => "+filepath.Join(sc.Repo, "v2")+"\n"); err != nil {
			return nil, err
		}
		pk := map[string]instr.Opts{}
		for k, v := range plan.V1 {
			pk[joinPath(v1Path, k)] = v
		}
		mods = append(mods, instr.Module{Dir: sc.Repo, Pkgs: pk})
	}
	_ = selfRepl
	if err := sc.WriteGoMod(repl); err != nil {
		return nil, err
	}
	res, err := instr.Run(mods, sc.Env)
	if err != nil {
		return nil, err
	}
	if err := instr.WriteSiteTable(sc.RT, res); err != nil {
		return nil, err
	}
	return res, nil
}

func joinPath(base, rel string) string {
	if rel == "" {
		return base
	}
	return base + "/" + rel
}

// TestInstrumented runs the repository's own tests of the given packages
// against the (instrumented) scratch copy.
func (sc *Scratch) TestInstrumented(pkgs []string) error {
	args := append([]string{"test", "-vet=off", "-count=1", "-timeout", "20m"}, pkgs...)
	cmd := exec.Command("go", args...)
	cmd.Dir = sc.RT
	cmd.Env = sc.Env
	var buf bytes.Buffer
	cmd.Stdout, cmd.Stderr = &buf, &buf
	if err := cmd.Run(); err != nil {
		return fmt.Errorf("%v\n%s", err, tail(buf.String(), 6000))
	}
	return nil
}

// Determinism executes the same runs several times in separate processes
// under different GOMAXPROCS values and a different shard count and requires
// identical per-run digests.
func Determinism(spec *Spec, sc *Scratch, bin string, o Options, runs int64) error {
	type cfgT struct {
		procs, shards int
	}
	cfgs := []cfgT{{1, 1}, {4, 1}, {16, 1}, {16, 1}, {4, 3}, {1, 2}}
	var ref map[string]uint64
	for ci, cf := range cfgs {
		got := map[string]uint64{}
		for sh := 0; sh < cf.shards; sh++ {
			out := filepath.Join(sc.Dir, fmt.Sprintf("det-%d-%d.json", ci, sh))
			args := []string{"-seed", strconv.FormatUint(o.Seed+7, 10), "-nshards", strconv.Itoa(cf.shards), "-shard", strconv.Itoa(sh), "-runs", strconv.FormatInt(runs, 10),
				"-maxsec", "900", "-tier", "selftest", "-replaydir", filepath.Join(sc.Dir, "det-replays"), "-arg", "repo=" + sc.Repo, "-arg", "selftest=1", "-digests", "-out", out}
			if spec.ExtraArgs != nil {
				args = append(args, spec.ExtraArgs(sc, o.Tier)...)
			}
			cmd := exec.Command(bin, args...)
			cmd.Dir = sc.Dir
			cmd.Env = append(os.Environ(), fmt.Sprintf("GOMAXPROCS=%d", cf.procs))
			var buf bytes.Buffer
			cmd.Stdout, cmd.Stderr = &buf, &buf
			if err := cmd.Run(); err != nil {
				return fmt.Errorf("worker failed: %v\n%s", err, tail(buf.String(), 3000))
			}
			b, err := os.ReadFile(out)
			if err != nil {
				return err
			}
			var r struct {
				RunDigests map[string]uint64 `json:"run_digests"`
			}
			if err := json.Unmarshal(b, &r); err != nil {
				return err
			}
			for k, v := range r.RunDigests {
				got[k] = v
			}
		}
		if ref == nil {
			ref = got
			if len(ref) == 0 {
				return fmt.Errorf("no run digests produced")
			}
			continue
		}
		for k, v := range ref {
			if got[k] != v {
				return fmt.Errorf("run %s differs between GOMAXPROCS=%d/%d shard(s) and GOMAXPROCS=%d/%d shard(s): digest %x vs %x", k, cfgs[0].procs, cfgs[0].shards, cf.procs, cf.shards, v, got[k])
			}
		}
		if len(got) != len(ref) {
			return fmt.Errorf("different run sets: %d vs %d", len(got), len(ref))
		}
	}
	return nil
}

// SelfTestOnly builds the harness and runs transparency and determinism
// self-tests without a check.
func SelfTestOnly(spec *Spec, o Options, runs int64) int {
	sc, err := NewScratch(o.VerifDir, o.RepoDir)
	if err != nil {
		fmt.Fprintf(o.Stdout, "TROUBLE scratch: %v\n", err)
		return ExitTrouble
	}
	defer sc.Remove()
	if err := sc.WriteGoMod(nil); err != nil {
		fmt.Fprintf(o.Stdout, "TROUBLE %v\n", err)
		return ExitTrouble
	}
	if spec.Instrument != nil {
		if err := spec.Instrument(sc); err != nil {
			fmt.Fprintf(o.Stdout, "TROUBLE instrumentation failed: %v\n", err)
			return ExitTrouble
		}
	}
	bin, err := sc.Build(spec.Harness)
	if err != nil {
		fmt.Fprintf(o.Stdout, "TROUBLE build failed: %v\n", err)
		return ExitTrouble
	}
	if len(spec.TestPkgs) > 0 {
		if err := sc.TestInstrumented(spec.TestPkgs); err != nil {
			fmt.Fprintf(o.Stdout, "SELFTEST %s transparency FAILED:\n%v\n", spec.ID, err)
			return ExitTrouble
		}
		fmt.Fprintf(o.Stdout, "SELFTEST %s transparency ok (%v)\n", spec.ID, spec.TestPkgs)
	}
	t0 := time.Now()
	if err := Determinism(spec, sc, bin, o, runs); err != nil {
		fmt.Fprintf(o.Stdout, "SELFTEST %s determinism FAILED: %v\n", spec.ID, err)
		return ExitTrouble
	}
	fmt.Fprintf(o.Stdout, "SELFTEST %s determinism ok: %d runs x 6 process configurations (GOMAXPROCS 1/4/16, 1-3 shards) gave identical per-run digests (%.1fs)\n", spec.ID, runs, time.Since(t0).Seconds())
	return ExitOK
}

// BuildPlain builds the harness against an uninstrumented copy of the tree
// (call it before instrumentation).
func (sc *Scratch) BuildPlain(harness string) ([]string, error) {
	plainRepo := filepath.Join(sc.Dir, "repo-plain")
	plainRT := filepath.Join(sc.Dir, "rt-plain")
	if err := copyTree(sc.Repo, plainRepo, nil, nil); err != nil {
		return nil, err
	}
	if err := copyTree(sc.RT, plainRT, nil, nil); err != nil {
		return nil, err
	}
	mod, err := os.ReadFile(filepath.Join(plainRT, "go.mod"))
	if err != nil {
		return nil, err
	}
	m := strings.ReplaceAll(string(mod), "=> ../repo", "=> ../repo-plain")
	if err := os.WriteFile(filepath.Join(plainRT, "go.mod"), []byte(m), 0o644); err != nil {
		return nil, err
	}
	out := filepath.Join(sc.Bin, harness+"-plain")
	cmd := exec.Command("go", "build", "-trimpath", "-o", out, "./harness/"+harness)
	cmd.Dir = plainRT
	cmd.Env = sc.Env
	var buf bytes.Buffer
	cmd.Stdout, cmd.Stderr = &buf, &buf
	if err := cmd.Run(); err != nil {
		return nil, fmt.Errorf("go build (uninstrumented) ./harness/%s: %v\n%s", harness, err, buf.String())
	}
	return []string{"-arg", "plainbin=" + out}, nil
}

// BuildReal builds the given main packages from the scratch copy as it is
// (call it before instrumentation) and returns -arg flags naming the binaries.
func (sc *Scratch) BuildReal(bins map[string]string) ([]string, error) {
	var args []string
	names := make([]string, 0, len(bins))
	for n := range bins {
		names = append(names, n)
	}
	sort.Strings(names)
	for _, name := range names {
		parts := strings.SplitN(bins[name], "|", 2)
		out := filepath.Join(sc.Bin, "real-"+name)
		cmd := exec.Command("go", "build", "-trimpath", "-o", out, parts[1])
		cmd.Dir = filepath.Join(sc.Repo, parts[0])
		cmd.Env = sc.Env
		var buf bytes.Buffer
		cmd.Stdout, cmd.Stderr = &buf, &buf
		if err := cmd.Run(); err != nil {
			return nil, fmt.Errorf("go build %s: %v\n%s", parts[1], err, buf.String())
		}
		args = append(args, "-arg", "realbin."+name+"="+out)
	}
	return args, nil
}
