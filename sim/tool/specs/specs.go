// Package specs holds the per-property configuration of the runner.
package specs

import (
	"veriftool/instr"
	"veriftool/runner"
)

var mapsOnly = instr.Opts{Maps: true, Sync: true} // Sync: sync.Pool, sync.Once etc. must be modelled or runs are not reproducible

var full = instr.Opts{Maps: true, Yields: true, Sync: true, Time: true, Access: true}
var yieldsAndClock = instr.Opts{Yields: true, Time: true}

var yieldsOnly = instr.Opts{Yields: true, Maps: true} // map order must be seeded too, or the number of yields passed (and so virtual time) varies from process to process
var mainPkg = instr.Opts{Maps: true, Yields: true, Sync: true, Time: true, Access: true, Elems: true, Main: true, MainPkgName: "idmain"}
var fullElems = instr.Opts{Maps: true, Yields: true, Sync: true, Time: true, Access: true, Elems: true}

var lite = instr.Opts{Maps: true, Yields: true, Sync: true, Time: true, Access: true, NoFields: true}

var all = map[string]*runner.Spec{
	"C09": {
		ID: "C09", Harness: "c09", Level: "exploration",
		Rule: "one run = one seeded workload on a frozen shared classifier (full embedded corpus or every 7th document plus a duplicate-text twin; with or without tracing whose Tracer callback is a scheduling point): 1..4 generated inputs, 2..16 caller tasks (sometimes up to 64) each making 1..4 calls of Match or MatchFrom (simulated reader: every Read a scheduling point, some readers fail), twins (two tasks with the same bytes) frequent; executed under one seeded scheduler (random / sticky / PCT, preemption at yield points inside tokenizer, search set and diff code, optional clock stalls). Non-trivial: at least 3 tasks and at least 2 context switches; distinct = distinct hash of the context-switch sequence combined with world and inputs.",
		Assume: []string{
			"race-freedom is decided as: no store into memory that existed before the calls (frozen arena, schedule-independent) and no unordered conflicting access to Go maps, package-level variables and captured variables (vector-clock checker); memory allocated by a call is private to it unless published through one of those",
			"stores into heap maps performed inside uninstrumented third-party code would be invisible (none in the current call graph); the map fingerprint would still see a changed value",
			"the solo reference is the same call run alone on the same frozen classifier with the run-to-block schedule and a frozen clock",
		},
		QuickRuns: 1800, ThorRuns: 60000, QuickCap: 420, ThorCap: 2400,
		TestPkgs: []string{"github.com/google/licenseclassifier/v2", "github.com/sergi/go-diff/diffmatchpatch"},
		Instrument: func(sc *runner.Scratch) error {
			gd := lite
			_, err := sc.Instrument(runner.InstrumentPlan{V2: map[string]instr.Opts{"": lite}, GoDiff: &gd})
			return err
		},
	},
	"C19": {
		ID: "C19", Harness: "c19", Level: "exploration",
		Rule: "one run = one seeded set of 0..12 real files in a temporary directory (licensed, unlicensed, two licenses with copyright lines, scenario files, empty, no trailing newline, CRLF, lines of 70 KB / 1 MB before, inside or after a match; at backend level sometimes a path that does not exist), flags (-headers, -tasks from {1,2,3,n,n+5,1000}, include_text, with/without context, a cancellation at a drawn step in 1 of 10 runs) and one seeded schedule of the worker goroutines, the closer goroutine and the collector. 7 of 8 runs drive the backend API, 1 of 8 runs the whole main() in-process. Non-trivial: at least 3 tasks and at least 2 context switches; distinct = distinct hash of the context-switch sequence combined with files and flags.",
		Assume: []string{
			"expected output is Match(file bytes) on a shared default classifier computed by the harness outside the schedule; Match itself is not validated here",
			"order among entries is not compared (the statement does not fix it)",
			"races on memory that does not feed the compared output (for instance the named result errors in the timeout path) are counted as observations, not violations",
			"process boundary, os.Exit, log.Fatal and stdout are stubbed in-process at main level",
		},
		QuickRuns: 1600, ThorRuns: 80000, QuickCap: 420, ThorCap: 2400,
		TestPkgs:     []string{"github.com/google/licenseclassifier/v2"},
		RealBinaries: map[string]string{"identify_license": "v2|./tools/identify_license"},
		Instrument: func(sc *runner.Scratch) error {
			_, err := sc.Instrument(runner.InstrumentPlan{
				V2: map[string]instr.Opts{"": yieldsOnly, "tools/identify_license": mainPkg, "tools/identify_license/backend": fullElems, "tools/identify_license/results": fullElems},
			})
			return err
		},
	},
	"C14": {
		ID: "C14", Harness: "c14", Level: "exploration",
		Rule: "one run = one seeded workload (population mode lazy via AddValue or precomputed via an in-process serializer archive loaded by licenseclassifier.New; 1..6 known values: small real license texts, synthetic 5..60-word texts, derived near-duplicates; 1..4 queries; 2..6 caller tasks with 1..4 operations each from MultipleMatch/NearestMatch/AddValue incl. duplicate keys) executed under one seeded scheduler (random / sticky / PCT, yield budgets, optional clock stalls) that also schedules the goroutines the library starts itself. Non-trivial: at least 3 tasks and at least 2 context switches; distinct = distinct hash of the context-switch sequence combined with the workload.",
		Assume: []string{
			"instrumented synchronisation is modelled by simrt (Mutex, RWMutex with writer preference, WaitGroup); synchronisation inside uninstrumented packages (regexp's sync.Pool, log's mutex) creates no happens-before edge by design",
			"accesses inside uninstrumented code (container/heap, sort, regexp, gob) are invisible to the race checker: possible misses, never false alarms",
			"sequential reference values are computed in a separate simulation with the run-to-block schedule",
			"porcupine verdict Unknown (timeout) is counted as inconclusive, never reported",
		},
		QuickRuns: 3000, ThorRuns: 120000, QuickCap: 420, ThorCap: 2400,
		TestPkgs: []string{"github.com/google/licenseclassifier/stringclassifier/...", "github.com/google/licenseclassifier/serializer"},
		Instrument: func(sc *runner.Scratch) error {
			_, err := sc.Instrument(runner.InstrumentPlan{
				V1: map[string]instr.Opts{"": fullElems, "stringclassifier": fullElems, "stringclassifier/internal/pq": fullElems, "stringclassifier/internal/sets": fullElems,
					"stringclassifier/searchset": fullElems, "stringclassifier/searchset/tokenizer": fullElems, "serializer": fullElems},
				GoDiff: &yieldsAndClock,
			})
			return err
		},
	},
	"C04": {
		ID: "C04", Harness: "c04", Level: "exploration",
		Rule: "one run = one seeded world (5..60 corpus documents biased to popular licenses, occasionally all 431; threshold from {0.7,0.75,0.8,0.9,1.0}; 1..3 classifier instances: canonical insertion order, permuted insertion order, permuted plus 1..6 unrelated out-of-vocabulary documents) and one seeded history of 5..40 operations (Match, MatchFrom over a fragmenting reader, Normalize, SetTraceConfiguration incl. nil, switch instance) over 1..4 generated inputs, executed with the iteration order of every map range in package classifier drawn from the choice stream (7 of 8 runs; the rest use sorted order). A run is non-trivial if at least one input was observed at least twice (so a comparison happened); distinct = distinct choice vector.",
		Assume: []string{
			"map iteration order is the only runtime nondeterminism feeding Match (no goroutines, clocks or randomness in the v2 library besides go-diff's deadline, which never fires within a sequential run of this size)",
			"sort.Sort is left real: it is deterministic for a given input order",
			"the instrumenter's map-range rewrite preserves semantics (guarded by running the repository's own v2 tests against the instrumented copy in the self-test)",
		},
		QuickRuns: 1500, ThorRuns: 40000, QuickCap: 420, ThorCap: 2400,
		TestPkgs:     []string{"github.com/google/licenseclassifier/v2"},
		PlainHarness: true,
		Instrument: func(sc *runner.Scratch) error {
			_, err := sc.Instrument(runner.InstrumentPlan{V2: map[string]instr.Opts{"": mapsOnly}})
			return err
		},
	},
	"C08": {
		ID: "C08", Harness: "c08", Level: "fault_enumeration",
		Rule: "enumerated part: every reader-failure offset 0..len(input) x 5 error kinds x 2 delivery forms (error alone / error with the last bytes) for a fixed input set, and every pad width 0..2*1024+8 for a fixed input set; seeded part: inputs drawn from scenario files / planted, edited, concatenated, multi-byte- and invalid-UTF-8-sprinkled corpus texts, pad drawn, each Read of the simulated reader draws its size (1,2,3,4,len-1,len,uniform,near-boundary), zero-length reads and data-with-EOF; runs with index%3==2 inject a fault, the others are fault-free. A case is non-trivial if the reader returned at least one short/one-byte/zero-length read or data together with EOF, or the pad is > 0, or an injected fault fired; distinct = distinct hash of (classifier world, input bytes, pad, fault, the full sequence of (n, err) the reader returned).",
		Assume: []string{
			"reader errors are sticky (a failed reader keeps failing), as io.ReadFull relies on",
			"the reference is Match(x) on the same classifier in the same process; Match itself is not validated here",
			"seeded search plus enumeration of two axes; fragmentation patterns are sampled, not enumerated",
		},
		QuickRuns: 6000, ThorRuns: 150000, QuickCap: 420, ThorCap: 2400,
	},
}

// IDs lists the claimed properties.
func IDs() []string { return []string{"C04", "C08", "C09", "C14", "C19"} }

// Get returns the spec for a property id (nil if not claimed).
func Get(id string) *runner.Spec { return all[id] }
