// Package v2kit holds the workload side shared by the harnesses that drive
// the v2 classifier: the corpus (read through the exported assets API), the
// scenario files, seeded input construction, the simulated io.Reader and a
// bit-exact comparison of Results.
package v2kit

import (
	"fmt"
	"math"
	"os"
	"path/filepath"
	"sort"
	"strings"

	classifier "github.com/google/licenseclassifier/v2"
	"github.com/google/licenseclassifier/v2/assets"

	"verifsim/simrt/choice"
)

// Doc is one corpus document.
type Doc struct {
	Category, Name, Variant string
	Data                    []byte
}

func (d Doc) Key() string { return d.Category + "/" + d.Name + "/" + d.Variant }

// LoadCorpusDir reads the corpus from the assets directory of the tree under
// test (category/name/variant files), sorted by key. The bytes are the same
// the embedded file system serves; reading them from disk keeps the harness
// independent of unexported API.
func LoadCorpusDir(assetsDir string) ([]Doc, error) {
	var docs []Doc
	cats, err := os.ReadDir(assetsDir)
	if err != nil {
		return nil, err
	}
	for _, c := range cats {
		if !c.IsDir() {
			continue
		}
		names, err := os.ReadDir(filepath.Join(assetsDir, c.Name()))
		if err != nil {
			return nil, err
		}
		for _, n := range names {
			if !n.IsDir() {
				continue
			}
			vars, err := os.ReadDir(filepath.Join(assetsDir, c.Name(), n.Name()))
			if err != nil {
				return nil, err
			}
			for _, v := range vars {
				if v.IsDir() {
					continue
				}
				b, err := os.ReadFile(filepath.Join(assetsDir, c.Name(), n.Name(), v.Name()))
				if err != nil {
					return nil, err
				}
				docs = append(docs, Doc{c.Name(), n.Name(), v.Name(), b})
			}
		}
	}
	sort.Slice(docs, func(i, j int) bool { return docs[i].Key() < docs[j].Key() })
	if len(docs) == 0 {
		return nil, fmt.Errorf("no corpus documents under %s", assetsDir)
	}
	return docs, nil
}

// Scenario is one scenario file (content after the EXPECTED line).
type Scenario struct {
	Name string
	Data []byte
}

// LoadScenarios reads the v2 scenario files of the tree under test.
func LoadScenarios(dir string) ([]Scenario, error) {
	ents, err := os.ReadDir(dir)
	if err != nil {
		return nil, err
	}
	var out []Scenario
	for _, e := range ents {
		if e.IsDir() || strings.HasSuffix(e.Name(), "md") {
			continue
		}
		b, err := os.ReadFile(filepath.Join(dir, e.Name()))
		if err != nil {
			return nil, err
		}
		parts := strings.SplitN(string(b), "EXPECTED:", 2)
		if len(parts) != 2 {
			continue
		}
		rest := strings.SplitN(parts[1], "\n", 2)
		if len(rest) != 2 {
			continue
		}
		out = append(out, Scenario{e.Name(), []byte(rest[1])})
	}
	sort.Slice(out, func(i, j int) bool { return out[i].Name < out[j].Name })
	return out, nil
}

// Build makes a classifier from docs in the given order.
func Build(threshold float64, docs []Doc) *classifier.Classifier {
	c := classifier.NewClassifier(threshold)
	for _, d := range docs {
		c.AddContent(d.Category, d.Name, d.Variant, d.Data)
	}
	return c
}

// DefaultClassifier is the classifier the CLI uses.
func DefaultClassifier() (*classifier.Classifier, error) { return assets.DefaultClassifier() }

// ---------------------------------------------------------------------------
// Results comparison

// Digest renders Results completely and bit-exactly.
func Digest(r classifier.Results) string {
	var sb strings.Builder
	fmt.Fprintf(&sb, "lines=%d n=%d", r.TotalInputLines, len(r.Matches))
	for _, m := range r.Matches {
		if m == nil {
			sb.WriteString("|<nil>")
			continue
		}
		fmt.Fprintf(&sb, "|%s/%s/%s conf=%016x L%d-%d T%d-%d", m.MatchType, m.Name, m.Variant,
			math.Float64bits(m.Confidence), m.StartLine, m.EndLine, m.StartTokenIndex, m.EndTokenIndex)
	}
	return sb.String()
}

// Pretty renders Results for humans.
func Pretty(r classifier.Results) string {
	var sb strings.Builder
	fmt.Fprintf(&sb, "TotalInputLines=%d", r.TotalInputLines)
	for _, m := range r.Matches {
		if m == nil {
			sb.WriteString(" <nil>")
			continue
		}
		fmt.Fprintf(&sb, " [%s %s %s conf=%v lines %d-%d tok %d-%d]", m.MatchType, m.Name, m.Variant, m.Confidence, m.StartLine, m.EndLine, m.StartTokenIndex, m.EndTokenIndex)
	}
	return sb.String()
}

// FirstDiff names the first field in which two Results differ ("" if equal).
// It is part of violation class signatures, so it contains no run-specific
// values.
func FirstDiff(a, b classifier.Results) string {
	if len(a.Matches) != len(b.Matches) {
		return "len(Matches)"
	}
	for i := range a.Matches {
		x, y := a.Matches[i], b.Matches[i]
		switch {
		case x == nil || y == nil:
			if x != y {
				return "nil-match"
			}
		case x.MatchType != y.MatchType:
			return "MatchType"
		case x.Name != y.Name:
			return "Name"
		case x.Variant != y.Variant:
			return "Variant"
		case math.Float64bits(x.Confidence) != math.Float64bits(y.Confidence):
			return "Confidence"
		case x.StartLine != y.StartLine:
			return "StartLine"
		case x.EndLine != y.EndLine:
			return "EndLine"
		case x.StartTokenIndex != y.StartTokenIndex:
			return "StartTokenIndex"
		case x.EndTokenIndex != y.EndTokenIndex:
			return "EndTokenIndex"
		}
	}
	if a.TotalInputLines != b.TotalInputLines {
		return "TotalInputLines"
	}
	return ""
}

// SameMultiset reports whether two Results have the same matches ignoring
// order (used to classify an order-only difference).
func SameMultiset(a, b classifier.Results) bool {
	if a.TotalInputLines != b.TotalInputLines || len(a.Matches) != len(b.Matches) {
		return false
	}
	key := func(m *classifier.Match) string {
		return fmt.Sprintf("%s/%s/%s %016x %d %d %d %d", m.MatchType, m.Name, m.Variant, math.Float64bits(m.Confidence), m.StartLine, m.EndLine, m.StartTokenIndex, m.EndTokenIndex)
	}
	var x, y []string
	for _, m := range a.Matches {
		x = append(x, key(m))
	}
	for _, m := range b.Matches {
		y = append(y, key(m))
	}
	sort.Strings(x)
	sort.Strings(y)
	for i := range x {
		if x[i] != y[i] {
			return false
		}
	}
	return true
}

// ---------------------------------------------------------------------------
// Input construction

// oov are words that occur in no corpus document (checked at setup by the
// harnesses that rely on it).
var oovWords = []string{"zzqx", "vlorp", "quuxify", "brankle", "snorfle", "wibblet", "plonkus", "grelbin", "frobnitz", "yarble", "mixolyd", "threnk", "ozwald", "kwyjibo", "blenth", "crundle"}

// OOV returns n out-of-vocabulary words as text with line breaks every k words.
func OOV(s *choice.Stream, n int) string {
	var sb strings.Builder
	for i := 0; i < n; i++ {
		sb.WriteString(oovWords[s.Draw(len(oovWords), "oov")])
		if s.Draw(7, "oovnl") == 0 {
			sb.WriteByte('\n')
		} else {
			sb.WriteByte(' ')
		}
	}
	return sb.String()
}

// OOVWords exposes the list.
func OOVWords() []string { return oovWords }

// multi-byte material used to push runes across the read-buffer boundary.
var multibyte = []string{"©", "—", "§", "é", "ü", "·", "‐", "中", "文", "語", "😀", "𝔘", "ß", "¤", "–", "‒"}
var invalid = []string{"\xff", "\xc3", "\xe2\x82", "\xf0\x9f\x98", "\x80", "\xc0\xaf", "\xed\xa0\x80", "\x00"}

// American / British spelling pairs used to respell corpus documents (the
// library documents that it treats such variants as interchangeable).
var britishSpellings = [][2]string{{"license", "licence"}, {"License", "Licence"}, {"organization", "organisation"}, {"authorized", "authorised"}, {"authorization", "authorisation"},
	{"center", "centre"}, {"favor", "favour"}, {"fulfill", "fulfil"}, {"initialize", "initialise"}, {"labor", "labour"}, {"program", "programme"}, {"recognize", "recognise"},
	{"utilization", "utilisation"}, {"while", "whilst"}, {"analyze", "analyse"}, {"artifact", "artefact"}, {"catalog", "catalogue"}, {"judgement", "judgment"},
	{"practice", "practise"}, {"modeled", "modelled"}, {"organize", "organise"}, {"realize", "realise"}, {"maximize", "maximise"}, {"optimize", "optimise"}, {"offense", "offence"}, {"canceled", "cancelled"}}

// Pool is the set of base texts inputs are built from.
type Pool struct {
	Scenarios []Scenario
	Docs      []Doc
	// Threshold of the classifier the inputs are meant for (0: unknown); used
	// to build inputs that sit on the first-pass (token frequency) boundary.
	Threshold float64
	// Partials enables the "fraction of a document + edited whole document"
	// shape inside the concatenation kind (set by the C04 harness only, so the
	// input streams of the other harnesses are unchanged).
	Partials bool
}

// Input is a generated input with a description.
type Input struct {
	Desc string
	Data []byte
}

// Gen draws one input. maxLen bounds its size (bytes, approximately).
func (p *Pool) Gen(s *choice.Stream, maxLen int) Input {
	kind := s.Pick([]int{5, 4, 3, 2, 2, 2, 1, 1, 3, 3, 4, 3, 5, 2, 1, 1}, "input-kind")
	var desc string
	var b []byte
	switch kind {
	case 0: // scenario file
		sc := p.Scenarios[s.Draw(len(p.Scenarios), "scenario")]
		desc, b = "scenario:"+sc.Name, append([]byte(nil), sc.Data...)
	case 1: // corpus document in OOV context
		d := p.Docs[s.Draw(len(p.Docs), "doc")]
		pre := OOV(s, s.Draw(30, "pre"))
		post := OOV(s, s.Draw(30, "post"))
		desc = "planted:" + d.Key()
		b = []byte(pre + "\n" + string(d.Data) + "\n" + post)
	case 2: // edited corpus document
		d := p.Docs[s.Draw(len(p.Docs), "doc")]
		words := strings.Fields(string(d.Data))
		lines := strings.Split(string(d.Data), "\n")
		_ = words
		nEdits := 1 + s.Draw(6, "nedits")
		for e := 0; e < nEdits && len(lines) > 0; e++ {
			li := s.Draw(len(lines), "edit-line")
			ws := strings.Fields(lines[li])
			if len(ws) == 0 {
				continue
			}
			wi := s.Draw(len(ws), "edit-word")
			switch s.Draw(3, "edit-kind") {
			case 0:
				ws = append(ws[:wi], ws[wi+1:]...)
			case 1:
				ws[wi] = oovWords[s.Draw(len(oovWords), "oov")]
			case 2:
				ws = append(ws[:wi], append([]string{oovWords[s.Draw(len(oovWords), "oov")]}, ws[wi:]...)...)
			}
			lines[li] = strings.Join(ws, " ")
		}
		desc = fmt.Sprintf("edited(%d):%s", nEdits, d.Key())
		b = []byte(strings.Join(lines, "\n"))
	case 3: // concatenation of two documents / scenarios
		if p.Partials && s.Draw(2, "partial") == 0 {
			// a verbatim fraction of a document, then the whole document with a few
			// words replaced: claims of one document that are created out of
			// confidence order (round 4, C04-m14)
			d := p.Docs[s.Draw(len(p.Docs), "doc")]
			ws := strings.Fields(string(d.Data))
			frac := len(ws) * (3 + s.Draw(5, "fraction")) / 10
			var sb strings.Builder
			for i, w := range ws[:frac] {
				sb.WriteString(w)
				if i%10 == 9 {
					sb.WriteByte('\n')
				} else {
					sb.WriteByte(' ')
				}
			}
			sb.WriteString("\n" + OOV(s, s.Draw(12, "mid")) + "\n")
			nrep := 1 + s.Draw(5, "nreplaced")
			rep := map[int]bool{}
			for e := 0; e < nrep && len(ws) > 0; e++ {
				rep[s.Draw(len(ws), "replaced-word")] = true
			}
			for i, w := range ws {
				if rep[i] {
					w = oovWords[s.Draw(len(oovWords), "oov")]
				}
				sb.WriteString(w)
				if i%10 == 9 {
					sb.WriteByte('\n')
				} else {
					sb.WriteByte(' ')
				}
			}
			desc = fmt.Sprintf("partial(%d/%d)+edited(%d):%s", frac, len(ws), nrep, d.Key())
			b = []byte(sb.String())
			break
		}
		d1 := p.Docs[s.Draw(len(p.Docs), "doc")]
		d2 := p.Docs[s.Draw(len(p.Docs), "doc")]
		desc = "concat:" + d1.Key() + "+" + d2.Key()
		b = []byte(string(d1.Data) + "\n" + OOV(s, 5+s.Draw(20, "mid")) + "\n" + string(d2.Data))
	case 4: // copyright-line-rich text (tie-heavy pseudo matches)
		var sb strings.Builder
		n := 2 + s.Draw(6, "ncopy")
		for i := 0; i < n; i++ {
			fmt.Fprintf(&sb, "Copyright (c) %d Example Holder %d\n", 1990+s.Draw(30, "year"), i)
			if s.Draw(2, "gap") == 0 {
				sb.WriteString(OOV(s, 3) + "\n")
			}
		}
		d := p.Docs[s.Draw(len(p.Docs), "doc")]
		sb.Write(d.Data)
		if s.Draw(2, "tailcopy") == 0 {
			fmt.Fprintf(&sb, "\nCopyright 2001 Another Holder\n")
		}
		desc = fmt.Sprintf("copyrights(%d)+%s", n, d.Key())
		b = []byte(sb.String())
	case 5: // multi-byte / invalid UTF-8 sprinkled scenario
		sc := p.Scenarios[s.Draw(len(p.Scenarios), "scenario")]
		b = append([]byte(nil), sc.Data...)
		n := 1 + s.Draw(12, "nsprinkle")
		for i := 0; i < n && len(b) > 0; i++ {
			pos := s.Draw(len(b)+1, "sprinkle-pos")
			var ins string
			if s.Draw(4, "sprinkle-invalid") == 0 {
				ins = invalid[s.Draw(len(invalid), "invalid")]
			} else {
				ins = multibyte[s.Draw(len(multibyte), "multibyte")]
			}
			b = append(b[:pos], append([]byte(ins), b[pos:]...)...)
		}
		desc = fmt.Sprintf("sprinkled(%d):%s", n, sc.Name)
	case 6: // short text near the q-gram minimum
		d := p.Docs[s.Draw(len(p.Docs), "doc")]
		ws := strings.Fields(string(d.Data))
		n := 1 + s.Draw(12, "short-n")
		if n > len(ws) {
			n = len(ws)
		}
		st := 0
		if len(ws) > n {
			st = s.Draw(len(ws)-n, "short-start")
		}
		desc = fmt.Sprintf("short(%d):%s", n, d.Key())
		b = []byte(strings.Join(ws[st:st+n], " "))
	case 8: // many documents, each preceded by a copyright line: many candidates, many ties
		var sb strings.Builder
		n := 4 + s.Draw(12, "multi-n")
		for i := 0; i < n; i++ {
			fmt.Fprintf(&sb, "Copyright (c) %d Holder Number %d\n\n", 1980+s.Draw(40, "year"), i)
			d := p.Docs[s.Draw(len(p.Docs), "doc")]
			sb.Write(d.Data)
			sb.WriteString("\n\n" + OOV(s, 3+s.Draw(8, "gap")) + "\n\n")
		}
		desc = fmt.Sprintf("multi(%d docs with copyright lines)", n)
		b = []byte(sb.String())
	case 9: // a corpus document verbatim, as the whole input
		d := p.Docs[s.Draw(len(p.Docs), "doc")]
		desc, b = "verbatim:"+d.Key(), append([]byte(nil), d.Data...)
	case 10: // a corpus document cut into pieces with blocks of foreign words in the gaps
		d := p.Docs[s.Draw(len(p.Docs), "doc")]
		ws := strings.Fields(string(d.Data))
		if len(ws) > 400 {
			st := s.Draw(len(ws)-400, "frag-window")
			ws = ws[st : st+400]
		}
		np := 2 + s.Draw(4, "frag-pieces")
		var sb strings.Builder
		pos := 0
		for i := 0; i < np && pos < len(ws); i++ {
			left := len(ws) - pos
			n := left
			if i < np-1 {
				n = 1 + s.Draw(left, "frag-len")
			}
			sb.WriteString(strings.Join(ws[pos:pos+n], " "))
			pos += n
			sb.WriteString("\n" + OOV(s, 1+s.Draw(24, "frag-gap")) + "\n")
		}
		desc = fmt.Sprintf("fragmented(%d pieces):%s", np, d.Key())
		b = []byte(sb.String())
	case 11: // a corpus document in British spelling
		d := p.Docs[s.Draw(len(p.Docs), "doc")]
		txt := string(d.Data)
		n := 0
		for _, pr := range britishSpellings {
			if strings.Contains(txt, pr[0]) && s.Draw(3, "respell?") != 0 {
				txt = strings.ReplaceAll(txt, pr[0], pr[1])
				n++
			}
		}
		desc = fmt.Sprintf("respelled(%d words):%s", n, d.Key())
		b = []byte(txt)
	case 12: // a document with just as many distinct words removed as the threshold tolerates, plus words of other documents
		d := p.Docs[s.Draw(len(p.Docs), "doc")]
		for try := 0; try < 4 && len(d.Data) > 6000; try++ {
			d = p.Docs[s.Draw(len(p.Docs), "doc")]
		}
		thr := p.Threshold
		if thr == 0 {
			thr = 0.8
		}
		words := strings.Fields(string(d.Data))
		norm := func(w string) string {
			var sb strings.Builder
			for _, r := range strings.ToLower(w) {
				if (r >= 'a' && r <= 'z') || (r >= '0' && r <= '9') {
					sb.WriteRune(r)
				}
			}
			return sb.String()
		}
		var distinct []string
		seenW := map[string]bool{}
		for _, w := range words {
			if n := norm(w); n != "" && !seenW[n] {
				seenW[n] = true
				distinct = append(distinct, n)
			}
		}
		m := int(float64(len(distinct))*(1-thr)+1e-9) + []int{-1, 0, 0, 0, 1}[s.Draw(5, "boundary-delta")]
		if m < 0 {
			m = 0
		}
		// drop rare words first (a dropped frequent word costs too much confidence)
		freq := map[string]int{}
		for _, w := range words {
			freq[norm(w)]++
		}
		sort.SliceStable(distinct, func(i, j int) bool { return freq[distinct[i]] < freq[distinct[j]] })
		drop := map[string]bool{}
		for i := 0; i < m && len(distinct) > 0; i++ {
			// among the rarest quarter
			q := len(distinct)/4 + 1
			if q > len(distinct) {
				q = len(distinct)
			}
			k := s.Draw(q, "boundary-drop")
			drop[distinct[k]] = true
			distinct = append(distinct[:k], distinct[k+1:]...)
		}
		var kept []string
		for _, w := range words {
			if !drop[norm(w)] {
				kept = append(kept, w)
			}
		}
		// words of other documents (known to the dictionary, foreign to this document)
		var extra []string
		for i := 0; i < s.Draw(40, "boundary-extra"); i++ {
			o := strings.Fields(string(p.Docs[s.Draw(len(p.Docs), "doc")].Data))
			if len(o) > 0 {
				if w := o[s.Draw(len(o), "extra-word")]; !seenW[norm(w)] {
					extra = append(extra, w)
				}
			}
		}
		desc = fmt.Sprintf("boundary(%d of %d distinct words dropped, %d foreign known words):%s", len(drop), len(drop)+len(distinct), len(extra), d.Key())
		b = []byte(strings.Join(kept, " ") + "\n" + strings.Join(extra, " "))
	case 13: // edits aimed at the scoring rules: version numbers, "lesser"/"library", license names
		d := p.Docs[s.Draw(len(p.Docs), "doc")]
		ws := strings.Fields(string(d.Data))
		n := 0
		for i := 0; i < len(ws) && n < 6; i++ {
			lw := strings.ToLower(strings.Trim(ws[i], ".,;:()\""))
			switch {
			case lw == "version" && i+1 < len(ws) && s.Draw(2, "rule-version") == 0:
				ws[i+1] = []string{"1", "2", "2.1", "3", "1.1", "9"}[s.Draw(6, "rule-version-value")]
				n++
			case lw == "gnu" && s.Draw(2, "rule-lesser") == 0:
				ws = append(ws[:i+1], append([]string{[]string{"lesser", "library", "affero"}[s.Draw(3, "rule-word")]}, ws[i+1:]...)...)
				n++
				i++
			case (lw == "lesser" || lw == "library") && s.Draw(2, "rule-swap") == 0:
				ws[i] = map[string]string{"lesser": "library", "library": "lesser"}[lw]
				n++
			case lw == "license" && s.Draw(8, "rule-name") == 0:
				ws = append(ws[:i], append([]string{[]string{"apache", "bsd", "php", "sunpro", "imagemagick", "silicon graphics"}[s.Draw(6, "rule-name-value")]}, ws[i:]...)...)
				n++
				i++
			}
		}
		desc = fmt.Sprintf("rule-edits(%d):%s", n, d.Key())
		b = []byte(strings.Join(ws, " "))
	case 14: // nothing but copyright lines, or nothing a word could start with
		if s.Draw(2, "degenerate-kind") == 0 {
			var sb strings.Builder
			for i := 0; i < 1+s.Draw(5, "n-copy"); i++ {
				fmt.Fprintf(&sb, "Copyright (c) %d Nobody %d\n", 1999+i, i)
			}
			desc, b = "only-copyright-lines", []byte(sb.String())
		} else {
			desc, b = "no-word-tokens", []byte(strings.Repeat(" \t\n-*/#", 1+s.Draw(40, "n-junk")))
		}
	case 15: // a large input: many documents one after the other (rarely: it is expensive)
		var sb strings.Builder
		size := 70000
		if s.Draw(4, "large-really") != 0 {
			size = 9000
		}
		for sb.Len() < size {
			d := p.Docs[s.Draw(len(p.Docs), "doc")]
			sb.Write(d.Data)
			sb.WriteString("\n" + OOV(s, 6) + "\n")
		}
		desc = fmt.Sprintf("large(%d bytes)", sb.Len())
		b = []byte(sb.String())
	case 7: // hyphenated line ends and CRLF
		sc := p.Scenarios[s.Draw(len(p.Scenarios), "scenario")]
		txt := string(sc.Data)
		switch s.Draw(4, "reflow-kind") {
		case 0:
			txt = strings.ReplaceAll(txt, "\n", "\r\n")
		case 1:
			txt = strings.ReplaceAll(txt, "tion ", "tion-\n")
		case 2: // classic Mac line ends: lone carriage returns
			txt = strings.ReplaceAll(txt, "\n", "\r")
		default: // mixed
			ls := strings.Split(txt, "\n")
			var sb strings.Builder
			for _, l := range ls {
				sb.WriteString(l)
				sb.WriteString([]string{"\n", "\r\n", "\r"}[s.Draw(3, "eol")])
			}
			txt = sb.String()
		}
		desc = "reflowed:" + sc.Name
		b = []byte(txt)
	}
	if maxLen > 0 && len(b) > maxLen {
		// cut at a drawn point so that truncated runes at EOF occur
		cut := maxLen - s.Draw(14, "cut")
		if cut < 0 {
			cut = 0
		}
		b = b[:cut]
		desc += fmt.Sprintf("[:%d]", cut)
	}
	return Input{desc, b}
}
