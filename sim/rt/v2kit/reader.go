package v2kit

import (
	"errors"
	"fmt"
	"io"

	"verifsim/simrt/choice"
)

// Fault describes an injected reader failure.
type Fault struct {
	At       int   // byte offset at which the reader fails (0..len)
	Err      error // the error returned
	WithData bool  // deliver the error together with n>0 bytes (when any are left before At)
	// Once: the reader reports the error a single time and then behaves as if
	// the stream had ended there (io.Reader does not require errors to repeat).
	Once bool
}

// ReaderStats counts what the simulated reader actually did.
type ReaderStats struct {
	Reads, OneByte, ZeroReads, DataWithEOF, BareEOF, ShortReads, FullReads int64
	FaultFired, FaultWithData, ReadsAfterError                             int64
}

// SimReader is the simulated io.Reader handed to MatchFrom: every Read draws
// its behaviour from the choice stream.
type SimReader struct {
	data         []byte
	off          int
	s            *choice.Stream
	fault        *Fault
	zeros        int
	failed       error
	eofDelivered bool
	Stats        ReaderStats
	// OnRead is called at the start of every Read (a scheduling point in the
	// concurrent harnesses).
	OnRead func()
	// Style biases the chunk distribution: 0 mixed, 1 always one byte,
	// 2 always as much as fits, 3 small chunks 1..4, 4 as much as fits and
	// the last bytes together with io.EOF, 5 small chunks with a zero-length read
	// before each.
	Style int
	log   []string
	Trace bool
	// SchedHash is a running hash of the (n, err-kind) sequence returned: the
	// identity of this reader schedule.
	SchedHash uint64
}

func NewSimReader(data []byte, s *choice.Stream, style int, fault *Fault) *SimReader {
	return &SimReader{data: data, s: s, Style: style, fault: fault}
}

func (r *SimReader) Log() []string { return r.log }

func (r *SimReader) Read(p []byte) (int, error) {
	if r.OnRead != nil {
		r.OnRead()
	}
	r.Stats.Reads++
	if r.failed != nil {
		r.Stats.ReadsAfterError++
		if r.fault != nil && r.fault.Once {
			r.tr("read(%d) -> 0, EOF (after the error was reported once)", len(p))
			return 0, io.EOF
		}
		// sticky error
		return 0, r.failed
	}
	if len(p) == 0 {
		return 0, nil
	}
	limit := len(r.data)
	if r.fault != nil && r.fault.At < limit {
		limit = r.fault.At
	}
	if r.fault != nil && r.fault.At > len(r.data) {
		limit = len(r.data)
	}
	avail := limit - r.off
	if avail <= 0 {
		if r.fault != nil && r.fault.At <= len(r.data) {
			r.failed = r.fault.Err
			r.Stats.FaultFired++
			r.tr("read(%d) -> 0, %v", len(p), r.failed)
			return 0, r.failed
		}
		if r.eofDelivered {
			r.Stats.ReadsAfterError++
		}
		r.eofDelivered = true
		r.Stats.BareEOF++
		r.tr("read(%d) -> 0, EOF", len(p))
		return 0, io.EOF
	}
	// stutter: every other read returns nothing (legal, discouraged)
	if r.Style == 5 && r.zeros == 0 {
		r.zeros = 1
		r.Stats.ZeroReads++
		r.tr("read(%d) -> 0, nil", len(p))
		return 0, nil
	}
	// zero-length read (legal, discouraged): at most 3 in a row
	if r.Style == 0 && r.zeros < 3 && r.s.Draw(24, "read-zero") == 0 {
		r.zeros++
		r.Stats.ZeroReads++
		r.tr("read(%d) -> 0, nil", len(p))
		return 0, nil
	}
	r.zeros = 0
	max := len(p)
	if avail < max {
		max = avail
	}
	n := max
	switch r.Style {
	case 1:
		n = 1
	case 2, 4:
		n = max
	case 3, 5:
		n = 1 + r.s.Draw(4, "read-small")
	default:
		switch r.s.Pick([]int{4, 2, 2, 2, 2, 4, 3, 3}, "read-kind") {
		case 0:
			n = 1
		case 1:
			n = 2
		case 2:
			n = 3
		case 3:
			n = 4
		case 4:
			n = max - 1
		case 5:
			n = max
		case 6:
			n = 1 + r.s.Draw(max, "read-n")
		case 7:
			// land within 4 bytes of the 1024-byte refill pattern
			n = max - r.s.Draw(6, "read-near")
		}
	}
	if n < 1 {
		n = 1
	}
	if n > max {
		n = max
	}
	copy(p, r.data[r.off:r.off+n])
	r.off += n
	switch {
	case n == 1:
		r.Stats.OneByte++
	case n == len(p):
		r.Stats.FullReads++
	default:
		r.Stats.ShortReads++
	}
	if r.off == limit {
		// last bytes before EOF or before the fault
		if r.fault != nil && r.fault.At <= len(r.data) {
			if r.fault.WithData {
				r.failed = r.fault.Err
				r.Stats.FaultFired++
				r.Stats.FaultWithData++
				r.tr("read(%d) -> %d, %v", len(p), n, r.failed)
				return n, r.failed
			}
		} else if r.Style == 4 || (r.Style != 2 && r.s.Draw(2, "read-data-with-eof") == 0) {
			r.eofDelivered = true
			r.Stats.DataWithEOF++
			r.tr("read(%d) -> %d, EOF", len(p), n)
			return n, io.EOF
		}
	}
	r.tr("read(%d) -> %d, nil", len(p), n)
	return n, nil
}

func (r *SimReader) tr(f string, a ...any) {
	h := r.SchedHash
	if h == 0 {
		h = 1469598103934665603
	}
	for _, x := range a {
		switch v := x.(type) {
		case int:
			h = (h ^ uint64(v)) * 1099511628211
		case error:
			h = (h ^ uint64(len(v.Error()))) * 1099511628211
		}
	}
	r.SchedHash = (h ^ uint64(len(f))) * 1099511628211
	if r.Trace {
		r.log = append(r.log, fmt.Sprintf(f, a...))
	}
}

// Sentinel errors used for fault injection. Every one is a "non-EOF error".
type sentinelError struct{ id string }

func (e *sentinelError) Error() string { return "injected reader fault " + e.id }

type wrappedError struct{ inner error }

func (e *wrappedError) Error() string { return "wrapped: " + e.inner.Error() }
func (e *wrappedError) Unwrap() error { return e.inner }

// opaqueError is an error whose dynamic type is not comparable (it holds a
// slice): using it as a map key or switch operand panics, == against another
// type is simply false.
type opaqueError struct{ detail []string }

func (e opaqueError) Error() string { return "injected opaque reader fault " + e.detail[0] }

// ErrKinds is the number of injected error kinds.
const ErrKinds = 7

// MakeErr returns (error to inject, kind name).
func MakeErr(kind int) (error, string) {
	switch kind {
	case 0:
		return &sentinelError{"sentinel"}, "sentinel"
	case 1:
		return &wrappedError{&sentinelError{"inner"}}, "wrapped"
	case 2:
		return io.ErrUnexpectedEOF, "io.ErrUnexpectedEOF"
	case 3:
		return io.ErrClosedPipe, "io.ErrClosedPipe"
	case 4:
		return opaqueError{[]string{"x"}}, "non-comparable-type"
	case 5:
		// io.Reader's contract: end of input is io.EOF itself, "not an error
		// wrapping EOF, because callers will test for EOF using ==". An error
		// that wraps io.EOF is therefore a failure like any other.
		return fmt.Errorf("injected: connection reset while reading: %w", io.EOF), "wraps-io.EOF"
	default:
		return errDeadline, "deadline"
	}
}

var errDeadline = errors.New("context deadline exceeded (injected)")
