// Package hlib is the part of a property harness that is the same for every
// property: the worker command line, the run loop over seeded choice streams,
// in-process minimisation of a failing choice vector, replay files and the
// per-worker report that the runner aggregates into the evidence file.
package hlib

import (
	"bytes"
	"encoding/json"
	"flag"
	"fmt"
	"hash/fnv"
	"io"
	"os"
	"os/exec"
	"path/filepath"
	"runtime"
	"sort"
	"strconv"
	"strings"
	"sync"
	"time"

	"verifsim/simrt/choice"
)

// Violation describes one failed oracle.
type Violation struct {
	Oracle  string `json:"oracle"`  // which oracle fired
	Class   string `json:"class"`   // stable signature: known-findings key and minimisation target
	Message string `json:"message"` // human readable, may contain run-specific detail
	// Flaky marks an observation that depends on nondeterminism outside the
	// choice stream (a real OS process, the runtime's own map order): the
	// runner reports it only if one of several fresh-process replays
	// reproduces a violation.
	Flaky bool `json:"flaky,omitempty"`
}

// Run is what one simulated execution reports.
type Run struct {
	Violation  *Violation       `json:"violation,omitempty"`
	Counters   map[string]int64 `json:"counters,omitempty"` // fault kinds fired, reach probes, ...
	Nontrivial bool             `json:"nontrivial"`         // by the property's stated rule
	Hash       uint64           `json:"hash"`               // identity of the case for distinct counting (schedule hash ^ workload hash)
	Steps      int64            `json:"steps"`
	VirtualNS  int64            `json:"virtual_ns"`
	Sample     any              `json:"sample,omitempty"` // a written-out description of the case (kept for a few runs)
	Trace      []string         `json:"trace,omitempty"`  // step trace (only filled when tracing is requested)
	// Choices is filled by isolated (child-process) execution: the values the
	// child drew.
	Choices []uint32 `json:"choices,omitempty"`
}

// Ctx is handed to the property's run function.
type Ctx struct {
	S     *choice.Stream
	Tier  string
	Trace bool // produce Run.Trace
	Seed  uint64
	RunIx uint64
	// Mode lets a harness split its run space into separate configurations
	// (e.g. fault-free vs faulty) without drawing.
	Args map[string]string
}

// RunFunc executes one run. It must be a pure function of the choice stream.
type RunFunc func(c *Ctx) *Run

// Enumerator optionally provides exhaustively enumerated cases in addition to
// the seeded ones: case i of n for this shard.
type Enumerator interface {
	// Count returns the size of the enumerated space for the tier.
	Count(tier string) int
	// RunCase executes enumerated case i.
	RunCase(i int, c *Ctx) *Run
}

// ReplayFile is the on-disk form of a failing (or sampled) run.
type ReplayFile struct {
	Property string            `json:"property"`
	Seed     uint64            `json:"seed"`
	Run      uint64            `json:"run"`
	EnumCase int               `json:"enum_case"` // -1: seeded run
	Args     map[string]string `json:"args,omitempty"`
	Choices  []uint32          `json:"choices"`
	Oracle   string            `json:"oracle"`
	Class    string            `json:"class"`
	Message  string            `json:"message"`
	OrigLen  int               `json:"original_choice_len"`
	MinTries int               `json:"minimisation_executions"`
	Trace    []string          `json:"trace,omitempty"`
	Sample   any               `json:"case,omitempty"`
}

// Found is one violation found by a worker.
type Found struct {
	Class   string `json:"class"`
	Oracle  string `json:"oracle"`
	Message string `json:"message"`
	Replay  string `json:"replay"`
	Count   int64  `json:"count"`
	Flaky   bool   `json:"flaky,omitempty"`
}

// Report is what a worker writes for the runner.
type Report struct {
	Property     string            `json:"property"`
	Shard        int               `json:"shard"`
	Runs         int64             `json:"runs"`
	EnumRuns     int64             `json:"enum_runs"`
	EnumTotal    int64             `json:"enum_total"`
	Steps        int64             `json:"steps"`
	VirtualNS    int64             `json:"virtual_ns"`
	Counters     map[string]int64  `json:"counters"`
	Hashes       []uint64          `json:"hashes"`     // hashes of nontrivial cases (for distinct counting across shards)
	Nontrivial   int64             `json:"nontrivial"` // not deduplicated
	Samples      []any             `json:"samples"`
	Found        []Found           `json:"found"`
	RunDigests   map[string]uint64 `json:"run_digests,omitempty"` // -digests: run index -> digest of everything the run reported
	WallS        float64           `json:"wall_s"`
	StoppedEarly bool              `json:"stopped_early"`
	Info         map[string]any    `json:"info,omitempty"`
}

// Harness bundles what a property provides.
type Harness struct {
	Property string
	Run      RunFunc
	Enum     Enumerator
	// Setup is called once per process before any run (build classifiers...).
	Setup func(args map[string]string, tier string) error
	// Info is copied into the report (real-vs-stub table etc).
	Info func() map[string]any
	// MinBudget bounds minimisation.
	MinExec int
	MinTime time.Duration
	// FreshProcessReplay: minimisation/replay must re-exec (C09 after a trap).
	NoInProcessMinimise bool
	// Isolate executes every run (and every minimisation candidate) in a
	// fresh child process, so that process-wide state cannot leak from one
	// run into the next and "across separate processes" is taken literally.
	Isolate bool
	// ChildVerify: runs execute in-process (expensive per-process setup), but a
	// violation is re-executed in a fresh child process before it is recorded,
	// and what the child shows (class, message) is what is recorded and
	// minimised: a finding that only exists because of state accumulated in the
	// worker process would not replay. If the child is clean the finding is
	// kept but marked Flaky.
	ChildVerify bool
	// Reference, when set, is invoked in reference mode (-reference): it
	// reads a request on stdin and writes the answer on stdout. Harnesses use
	// it to obtain results from a separately built instance in a separate
	// process with a trivial history.
	Reference func(in io.Reader, out io.Writer) error
}

// Hash64 hashes strings for case identity.
func Hash64(parts ...string) uint64 {
	h := fnv.New64a()
	for _, p := range parts {
		h.Write([]byte(p))
		h.Write([]byte{0})
	}
	return h.Sum64()
}

type argList map[string]string

func (a argList) String() string { return fmt.Sprint(map[string]string(a)) }
func (a argList) Set(v string) error {
	k, val, ok := strings.Cut(v, "=")
	if !ok {
		return fmt.Errorf("want key=value")
	}
	a[k] = val
	return nil
}

// Main is the worker entry point.
func Main(h *Harness) {
	var (
		seed    = flag.Uint64("seed", 1, "VERIF_SEED")
		shard   = flag.Int("shard", 0, "shard index")
		nshards = flag.Int("nshards", 1, "number of shards")
		runs    = flag.Int64("runs", 100, "total seeded runs over all shards")
		maxsec  = flag.Float64("maxsec", 600, "wall clock cap for this worker")
		out     = flag.String("out", "", "report file")
		replay  = flag.String("replay", "", "replay file to execute")
		tier    = flag.String("tier", "quick", "quick|thorough")
		repdir  = flag.String("replaydir", "", "directory for replay files")
		known   = flag.String("known", "", "file with known-finding class signatures, one per line (not minimised)")
		runFrom = flag.Int64("runfrom", 0, "first run index (lets several batches share a seed)")
		dump    = flag.Bool("dumptrace", false, "with -replay: print the step trace")
		child   = flag.String("childrun", "", "internal: execute one run described by this JSON file and print the result")
		refmode = flag.Bool("reference", false, "internal: serve one reference request on stdin/stdout")
		digests = flag.Bool("digests", false, "record a digest per run (determinism self-test)")
	)
	args := argList{}
	flag.Var(args, "arg", "harness argument key=value (repeatable)")
	flag.Parse()

	if h.MinExec == 0 {
		h.MinExec = 300
	}
	if h.MinTime == 0 {
		h.MinTime = 40 * time.Second
	}
	// all minimisations of one worker together
	minBudget := 150 * time.Second

	if *refmode {
		if h.Reference == nil {
			os.Exit(2)
		}
		if h.Setup != nil {
			if err := h.Setup(args, *tier); err != nil {
				fmt.Fprintf(os.Stderr, "harness setup failed: %v\n", err)
				os.Exit(2)
			}
		}
		if err := h.Reference(os.Stdin, os.Stdout); err != nil {
			fmt.Fprintf(os.Stderr, "reference: %v\n", err)
			os.Exit(2)
		}
		os.Exit(0)
	}
	if *child != "" {
		os.Exit(childMain(h, *child))
	}
	if *replay != "" {
		os.Exit(doReplay(h, *replay, *tier, *dump))
	}

	if h.Setup != nil {
		if err := h.Setup(args, *tier); err != nil {
			fmt.Fprintf(os.Stderr, "harness setup failed: %v\n", err)
			os.Exit(2)
		}
	}

	knownSet := map[string]bool{}
	if *known != "" {
		if b, err := os.ReadFile(*known); err == nil {
			for _, l := range strings.Split(string(b), "\n") {
				if l = strings.TrimSpace(l); l != "" {
					knownSet[l] = true
				}
			}
		}
	}

	// Watchdog: a run that makes no progress for a long time (a simulated task
	// blocked for real on something the simulator does not model) is machinery
	// trouble: dump the stacks and exit 2, never a VIOLATION.
	progress := time.Now()
	var progMu sync.Mutex
	limit := 900 * time.Second
	if v := os.Getenv("VERIF_RUN_WATCHDOG_S"); v != "" {
		if f, err := strconv.ParseFloat(v, 64); err == nil {
			limit = time.Duration(f * float64(time.Second))
		}
	}
	go func() {
		for {
			time.Sleep(5 * time.Second)
			progMu.Lock()
			idle := time.Since(progress)
			progMu.Unlock()
			if idle > limit {
				buf := make([]byte, 1<<20)
				n := runtime.Stack(buf, true)
				fmt.Fprintf(os.Stderr, "WATCHDOG: no run finished for %v; goroutine stacks:\n%s\n", idle, buf[:n])
				os.Exit(2)
			}
		}
	}()
	tick := func() {
		progMu.Lock()
		progress = time.Now()
		progMu.Unlock()
	}
	start := time.Now()
	rep := &Report{Property: h.Property, Shard: *shard, Counters: map[string]int64{}}
	hashes := map[uint64]struct{}{}
	found := map[string]*Found{}
	deadline := start.Add(time.Duration(*maxsec * float64(time.Second)))

	digest := func(tag string, r *Run) {
		if !*digests {
			return
		}
		if rep.RunDigests == nil {
			rep.RunDigests = map[string]uint64{}
		}
		var ks []string
		for k, v := range r.Counters {
			ks = append(ks, fmt.Sprintf("%s=%d", k, v))
		}
		sort.Strings(ks)
		cl := ""
		if r.Violation != nil {
			cl = r.Violation.Class
		}
		rep.RunDigests[tag] = Hash64(fmt.Sprint(r.Hash, r.Steps, r.VirtualNS, r.Nontrivial), cl, strings.Join(ks, ","))
		if os.Getenv("VERIF_DIGEST_DEBUG") != "" {
			fmt.Fprintf(os.Stderr, "DIGEST %s %v %v %v %v %s %s\n", tag, r.Hash, r.Steps, r.VirtualNS, r.Nontrivial, cl, strings.Join(ks, ","))
		}
	}
	account := func(r *Run) {
		tick()
		rep.Steps += r.Steps
		rep.VirtualNS += r.VirtualNS
		for k, v := range r.Counters {
			rep.Counters[k] += v
		}
		if r.Nontrivial {
			rep.Nontrivial++
			hashes[r.Hash] = struct{}{}
		}
		if r.Sample != nil && len(rep.Samples) < 3 && (r.Nontrivial || len(rep.Samples) == 0) {
			rep.Samples = append(rep.Samples, r.Sample)
		}
	}

	handle := func(r *Run, c *Ctx, enumCase int) {
		v := r.Violation
		if f, ok := found[v.Class]; ok {
			f.Count++
			return
		}
		inProcessClass := v.Class
		viaChild := h.Isolate
		if h.ChildVerify && !h.Isolate {
			cr := runChild(&childReq{Tier: c.Tier, Seed: c.Seed, RunIx: c.RunIx, Args: c.Args, EnumCase: enumCase, Replay: true, Choices: c.S.Recorded()})
			if cr.Violation != nil {
				v = cr.Violation
				viaChild = true
				if f, ok := found[v.Class]; ok {
					f.Count++
					found[inProcessClass] = f
					return
				}
			} else {
				v.Flaky = true
				v.Message = "(seen in the worker process only; a fresh process executing the same choice vector is clean, so it depends on state accumulated over earlier runs)\n" + v.Message
			}
		}
		f := &Found{Class: v.Class, Oracle: v.Oracle, Message: v.Message, Count: 1, Flaky: v.Flaky}
		found[v.Class] = f
		if inProcessClass != v.Class {
			found[inProcessClass] = f
		}
		childExec = viaChild
		rf := &ReplayFile{Property: h.Property, Seed: c.Seed, Run: c.RunIx, EnumCase: enumCase, Args: c.Args,
			Choices: c.S.Recorded(), Oracle: v.Oracle, Class: v.Class, Message: v.Message}
		if h.Isolate {
			rf.Choices = r.Choices
		}
		defer func() { childExec = false }()
		rf.OrigLen = len(rf.Choices)
		if !knownSet[v.Class] && !h.NoInProcessMinimise && minBudget > 0 && !v.Flaky {
			t0 := time.Now()
			mt := h.MinTime
			if mt > minBudget {
				mt = minBudget
			}
			minimise(h, rf, *tier, mt)
			minBudget -= time.Since(t0)
		}
		// Re-run with tracing to fill the trace and the case description.
		tr := execVec(h, rf, *tier, true)
		if tr != nil {
			rf.Trace = tr.Trace
			rf.Sample = tr.Sample
			if tr.Violation != nil {
				rf.Message = tr.Violation.Message
			}
		}
		name := fmt.Sprintf("%s-%d-%s-%016x.json", h.Property, c.Seed, runTag(c.RunIx, enumCase), Hash64(v.Class))
		path := filepath.Join(*repdir, name)
		if *repdir != "" {
			if err := writeJSON(path, rf); err != nil {
				fmt.Fprintf(os.Stderr, "cannot write replay file: %v\n", err)
				os.Exit(2)
			}
			f.Replay = path
		}
	}

	// Enumerated cases first (they are the exhaustive part of the claim).
	if h.Enum != nil {
		n := h.Enum.Count(*tier)
		rep.EnumTotal = int64(n)
		for i := *shard; i < n; i += *nshards {
			if time.Now().After(deadline) {
				rep.StoppedEarly = true
				break
			}
			c := &Ctx{S: choice.New(*seed, uint64(i)+1<<40), Tier: *tier, Seed: *seed, RunIx: uint64(i), Args: args}
			r := execFresh(h, c, i)
			rep.EnumRuns++
			digest(fmt.Sprintf("e%d", i), r)
			account(r)
			if r.Violation != nil {
				handle(r, c, i)
			}
		}
	}

	for run := *runFrom + int64(*shard); run < *runFrom+*runs; run += int64(*nshards) {
		if time.Now().After(deadline) {
			rep.StoppedEarly = true
			break
		}
		c := &Ctx{S: choice.New(*seed, uint64(run)), Tier: *tier, Seed: *seed, RunIx: uint64(run), Args: args}
		t0 := time.Now()
		r := execFresh(h, c, -1)
		if os.Getenv("VERIF_PROGRESS") != "" {
			fmt.Fprintf(os.Stderr, "PROGRESS run %d took %.2fs steps=%d violation=%v\n", run, time.Since(t0).Seconds(), r.Steps, r.Violation != nil)
		}
		rep.Runs++
		digest(fmt.Sprintf("r%d", run), r)
		account(r)
		if r.Violation != nil {
			handle(r, c, -1)
		}
	}

	for h := range hashes {
		rep.Hashes = append(rep.Hashes, h)
	}
	sort.Slice(rep.Hashes, func(i, j int) bool { return rep.Hashes[i] < rep.Hashes[j] })
	classes := make([]string, 0, len(found))
	for c := range found {
		classes = append(classes, c)
	}
	sort.Strings(classes)
	for _, c := range classes {
		if found[c].Class != c {
			continue // alias: the class seen in-process before the child confirmed another one
		}
		rep.Found = append(rep.Found, *found[c])
	}
	if h.Info != nil {
		rep.Info = h.Info()
	}
	rep.WallS = time.Since(start).Seconds()
	if *out != "" {
		if err := writeJSON(*out, rep); err != nil {
			fmt.Fprintf(os.Stderr, "cannot write report: %v\n", err)
			os.Exit(2)
		}
	} else {
		b, _ := json.MarshalIndent(rep, "", " ")
		fmt.Println(string(b))
	}
}

func runTag(run uint64, enumCase int) string {
	if enumCase >= 0 {
		return fmt.Sprintf("e%d", enumCase)
	}
	return fmt.Sprintf("r%d", run)
}

func writeJSON(path string, v any) error {
	b, err := json.MarshalIndent(v, "", " ")
	if err != nil {
		return err
	}
	if err := os.MkdirAll(filepath.Dir(path), 0o755); err != nil {
		return err
	}
	tmp := path + ".tmp"
	if err := os.WriteFile(tmp, append(b, '\n'), 0o644); err != nil {
		return err
	}
	return os.Rename(tmp, path)
}

// execVec runs the harness on a recorded vector.
// childExec makes execVec go through child processes (set while a finding
// confirmed in a child is minimised and traced).
var childExec bool

func execVec(h *Harness, rf *ReplayFile, tier string, trace bool) *Run {
	if h.Isolate || childExec {
		return runChild(&childReq{Tier: tier, Trace: trace, Seed: rf.Seed, RunIx: rf.Run, Args: rf.Args, EnumCase: rf.EnumCase, Replay: true, Choices: rf.Choices})
	}
	c := &Ctx{S: choice.Replay(rf.Choices), Tier: tier, Trace: trace, Seed: rf.Seed, RunIx: rf.Run, Args: rf.Args}
	if rf.EnumCase >= 0 && h.Enum != nil {
		return h.Enum.RunCase(rf.EnumCase, c)
	}
	return h.Run(c)
}

// minimise shrinks rf.Choices while the same violation class persists.
func minimise(h *Harness, rf *ReplayFile, tier string, budget time.Duration) {
	deadline := time.Now().Add(budget)
	tries := 0
	expired := func() bool { return tries >= h.MinExec || time.Now().After(deadline) }
	test := func(vec []uint32) bool {
		if expired() {
			return false
		}
		tries++
		t := *rf
		t.Choices = vec
		r := execVec(h, &t, tier, false)
		return r != nil && r.Violation != nil && r.Violation.Class == rf.Class
	}
	vec := append([]uint32(nil), rf.Choices...)
	// The recorded vector must reproduce at all; if not, keep it untouched
	// (the runner's fresh-process replay will flag non-reproduction).
	if !test(vec) {
		rf.MinTries = tries
		return
	}
	// 1. truncate (an exhausted vector reads as zeros)
	for n := len(vec) / 2; n >= 1 && !expired(); n /= 2 {
		for len(vec) > n && !expired() {
			cand := vec[:len(vec)-n]
			if test(cand) {
				vec = append([]uint32(nil), cand...)
			} else {
				break
			}
		}
	}
	// 2. zero out chunks (delta debugging towards the all-zero vector)
	for n := len(vec) / 2; n >= 1 && !expired(); n /= 2 {
		for i := 0; i+n <= len(vec) && !expired(); i += n {
			allZero := true
			for _, x := range vec[i : i+n] {
				if x != 0 {
					allZero = false
					break
				}
			}
			if allZero {
				continue
			}
			cand := append([]uint32(nil), vec...)
			for j := i; j < i+n; j++ {
				cand[j] = 0
			}
			if test(cand) {
				vec = cand
			}
		}
	}
	// 3. delete chunks (shifts later decisions; often removes whole operations)
	for n := len(vec) / 2; n >= 1 && !expired(); n /= 2 {
		for i := 0; i+n <= len(vec) && !expired(); {
			cand := append(append([]uint32(nil), vec[:i]...), vec[i+n:]...)
			if test(cand) {
				vec = cand
			} else {
				i += n
			}
		}
	}
	// 4. decrease single values
	for i := 0; i < len(vec) && !expired(); i++ {
		for vec[i] > 0 && !expired() {
			cand := append([]uint32(nil), vec...)
			cand[i] = vec[i] / 2
			if test(cand) {
				vec = cand
			} else {
				cand[i] = vec[i] - 1
				if cand[i] != vec[i]/2 && test(cand) {
					vec = cand
				} else {
					break
				}
			}
		}
	}
	// drop trailing zeros
	for len(vec) > 0 && vec[len(vec)-1] == 0 {
		vec = vec[:len(vec)-1]
	}
	rf.Choices = vec
	rf.MinTries = tries
}

// doReplay executes a replay file; exit status 1 when the recorded violation
// class reproduces, 0 when the run is clean, 3 when a different violation
// appears, 2 on trouble.
func doReplay(h *Harness, path, tier string, dump bool) int {
	b, err := os.ReadFile(path)
	if err != nil {
		fmt.Fprintf(os.Stderr, "replay: %v\n", err)
		return 2
	}
	var rf ReplayFile
	if err := json.Unmarshal(b, &rf); err != nil {
		fmt.Fprintf(os.Stderr, "replay: %v\n", err)
		return 2
	}
	if rf.Args == nil {
		rf.Args = map[string]string{}
	}
	if h.Setup != nil {
		if err := h.Setup(rf.Args, tier); err != nil {
			fmt.Fprintf(os.Stderr, "harness setup failed: %v\n", err)
			return 2
		}
	}
	r := execVec(h, &rf, tier, true)
	if dump {
		for _, l := range r.Trace {
			fmt.Println(l)
		}
	}
	if r.Violation == nil {
		fmt.Printf("REPLAY clean property=%s file=%s\n", h.Property, path)
		return 0
	}
	fmt.Printf("REPLAY violation property=%s oracle=%s class=%q\n  %s\n", h.Property, r.Violation.Oracle, r.Violation.Class, r.Violation.Message)
	if r.Violation.Class == rf.Class {
		return 1
	}
	fmt.Printf("REPLAY class differs from recorded %q\n", rf.Class)
	return 3
}

// ---------------------------------------------------------------------------
// isolated execution

type childReq struct {
	Tier     string            `json:"tier"`
	Trace    bool              `json:"trace"`
	Seed     uint64            `json:"seed"`
	RunIx    uint64            `json:"runix"`
	Args     map[string]string `json:"args"`
	EnumCase int               `json:"enum_case"`
	Replay   bool              `json:"replay"`
	Choices  []uint32          `json:"choices"`
}

const childMarker = "\n@@VERIF-CHILD-RESULT@@\n"

// execFresh executes a search-mode run, in a child process when the harness
// asks for isolation.
func execFresh(h *Harness, c *Ctx, enumCase int) *Run {
	if !h.Isolate {
		if enumCase >= 0 {
			return h.Enum.RunCase(enumCase, c)
		}
		return h.Run(c)
	}
	return runChild(&childReq{Tier: c.Tier, Seed: c.Seed, RunIx: c.RunIx, Args: c.Args, EnumCase: enumCase})
}

// runChild re-executes this binary for one run. A child that dies without a
// result (fatal runtime error, os.Exit inside the code under test) is itself
// an observation: the process crashed.
func runChild(req *childReq) *Run {
	f, err := os.CreateTemp("", "verif-child-*.json")
	if err != nil {
		fmt.Fprintf(os.Stderr, "cannot create child request: %v\n", err)
		os.Exit(2)
	}
	defer os.Remove(f.Name())
	b, _ := json.Marshal(req)
	f.Write(b)
	f.Close()
	cmd := exec.Command(os.Args[0], "-childrun", f.Name())
	var out, errb bytes.Buffer
	cmd.Stdout, cmd.Stderr = &out, &errb
	runErr := cmd.Run()
	s := out.String()
	if i := strings.LastIndex(s, childMarker); i >= 0 {
		var r Run
		if err := json.Unmarshal([]byte(s[i+len(childMarker):]), &r); err == nil {
			return &r
		}
	}
	msg := errb.String()
	if len(msg) > 6000 {
		msg = msg[:3000] + "\n...\n" + msg[len(msg)-3000:]
	}
	first := ""
	for _, l := range strings.Split(errb.String(), "\n") {
		if strings.HasPrefix(l, "fatal error:") || strings.HasPrefix(l, "panic:") {
			first = l
			break
		}
	}
	if len(first) > 100 {
		first = first[:100]
	}
	return &Run{Violation: &Violation{Oracle: "process-survives", Class: "process-crashed:" + first, Message: fmt.Sprintf("the process executing the run died (%v)\n%s", runErr, msg)},
		Counters: map[string]int64{"child_process_crashed": 1}, Choices: req.Choices}
}

func childMain(h *Harness, reqFile string) int {
	b, err := os.ReadFile(reqFile)
	if err != nil {
		fmt.Fprintln(os.Stderr, err)
		return 2
	}
	var req childReq
	if err := json.Unmarshal(b, &req); err != nil {
		fmt.Fprintln(os.Stderr, err)
		return 2
	}
	if req.Args == nil {
		req.Args = map[string]string{}
	}
	if h.Setup != nil {
		if err := h.Setup(req.Args, req.Tier); err != nil {
			fmt.Fprintf(os.Stderr, "harness setup failed: %v\n", err)
			return 2
		}
	}
	var st *choice.Stream
	if req.Replay {
		st = choice.Replay(req.Choices)
	} else if req.EnumCase >= 0 {
		st = choice.New(req.Seed, uint64(req.EnumCase)+1<<40)
	} else {
		st = choice.New(req.Seed, req.RunIx)
	}
	c := &Ctx{S: st, Tier: req.Tier, Trace: req.Trace, Seed: req.Seed, RunIx: req.RunIx, Args: req.Args}
	var r *Run
	if req.EnumCase >= 0 && h.Enum != nil {
		r = h.Enum.RunCase(req.EnumCase, c)
	} else {
		r = h.Run(c)
	}
	r.Choices = st.Recorded()
	out, err := json.Marshal(r)
	if err != nil {
		fmt.Fprintln(os.Stderr, err)
		return 2
	}
	os.Stdout.WriteString(childMarker)
	os.Stdout.Write(out)
	return 0
}

// CallReference runs this binary in reference mode with req on stdin and
// returns what it wrote.
func CallReference(args map[string]string, tier string, req []byte) ([]byte, error) {
	return CallReferenceBin(os.Args[0], args, tier, req)
}

// CallReferenceBin is CallReference with another binary of the same harness
// (for instance one built against the uninstrumented tree).
func CallReferenceBin(bin string, args map[string]string, tier string, req []byte) ([]byte, error) {
	argv := []string{"-reference", "-tier", tier}
	for k, v := range args {
		argv = append(argv, "-arg", k+"="+v)
	}
	cmd := exec.Command(bin, argv...)
	cmd.Stdin = bytes.NewReader(req)
	var out, errb bytes.Buffer
	cmd.Stdout, cmd.Stderr = &out, &errb
	if err := cmd.Run(); err != nil {
		return nil, fmt.Errorf("reference process: %v: %s", err, errb.String())
	}
	return out.Bytes(), nil
}
