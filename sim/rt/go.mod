module verifsim

go 1.23

require (
	github.com/anishathalye/porcupine v1.3.0
	github.com/google/licenseclassifier v0.0.0
	github.com/google/licenseclassifier/v2 v2.0.0
	verifsim/simrt v0.0.0
)

replace verifsim/simrt => ./simrt

replace github.com/google/licenseclassifier => /repo

replace github.com/google/licenseclassifier/v2 => /repo/v2
