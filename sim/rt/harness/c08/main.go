// Command c08 is the simulation harness for property C08: MatchFrom over a
// simulated, fragmenting, failing io.Reader against Match on the same bytes.
//
// The library under test is compiled unmodified from the tree under test; the
// seam is the io.Reader argument MatchFrom already has.
package main

import (
	"bytes"
	"errors"
	"fmt"
	"path/filepath"
	"reflect"
	"strings"

	classifier "github.com/google/licenseclassifier/v2"

	"verifsim/hlib"
	"verifsim/simrt/choice"
	"verifsim/v2kit"
)

type world struct {
	name string
	c    *classifier.Classifier
}

var (
	worlds []world
	pool   *v2kit.Pool
	// enumerated spaces
	faultInputs []v2kit.Input // fault offset enumeration
	faultBase   []int         // prefix sums of cases per input
	padInputs   []v2kit.Input
	padBase     int // number of fault cases (pad cases follow)
	padWidths   int
	refCache    = map[string]classifier.Results{}
	accentDoc   string
	padWorld    []int // world index per pad input
)

const bufSize = 1024 // the property statement's "bufsize" (pad widths 0..2*bufsize+8)

func setup(args map[string]string, tier string) error {
	repo := args["repo"]
	if repo == "" {
		return fmt.Errorf("missing -arg repo=<tree under test>")
	}
	docs, err := v2kit.LoadCorpusDir(filepath.Join(repo, "v2", "assets"))
	if err != nil {
		return err
	}
	scs, err := v2kit.LoadScenarios(filepath.Join(repo, "v2", "scenarios"))
	if err != nil {
		return err
	}
	pool = &v2kit.Pool{Scenarios: scs, Docs: docs}
	full, err := v2kit.DefaultClassifier()
	if err != nil {
		return err
	}
	// a small corpus: every 9th document, at two other thresholds
	var small []v2kit.Doc
	for i := 0; i < len(docs); i += 9 {
		small = append(small, docs[i])
	}
	// a user-added document made of accented words: its text is full of
	// two-byte runes, so every read-buffer refill leaves continuation bytes
	// behind in the buffer
	var acc strings.Builder
	for i := 0; acc.Len() < 2600; i++ {
		acc.WriteString([]string{"résumé", "café", "naïve", "señor", "über", "élève", "façade", "jalapeño", "crème", "brûlée", "déjà", "vu"}[i%12])
		if i%10 == 9 {
			acc.WriteByte('\n')
		} else {
			acc.WriteByte(' ')
		}
	}
	acc.WriteString("fin")
	accentDoc = acc.String()
	accWorld := append(append([]v2kit.Doc(nil), small...), v2kit.Doc{Category: "License", Name: "Verif-Accents", Variant: "license.txt", Data: []byte(accentDoc)})
	worlds = []world{{"full@0.8", full}, {"small@0.7", v2kit.Build(0.7, small)}, {"small@1.0", v2kit.Build(1.0, small)}, {"small+accent-doc@0.8", v2kit.Build(0.8, accWorld)}}

	// --- enumerated inputs -------------------------------------------------
	mk := func(desc, s string) v2kit.Input { return v2kit.Input{Desc: desc, Data: []byte(s)} }
	var mit, apacheHdr string
	for _, d := range docs {
		if d.Name == "MIT" && d.Category == "License" && mit == "" {
			mit = string(d.Data)
		}
		if d.Name == "Apache-2.0" && d.Category == "Header" && apacheHdr == "" {
			apacheHdr = string(d.Data)
		}
	}
	if mit == "" || apacheHdr == "" {
		return fmt.Errorf("corpus lacks MIT license or Apache-2.0 header")
	}
	// a text whose multi-byte runes sit on every residue of the refill period
	var mb strings.Builder
	mb.WriteString("Copyright © 2020 Example — Holder\n")
	for i := 0; mb.Len() < 2300; i++ {
		mb.WriteString([]string{"licensed", "under—the", "©terms", "of", "中文", "the😀", "MIT§", "license·"}[i%8])
		if i%9 == 8 {
			mb.WriteByte('\n')
		} else {
			mb.WriteByte(' ')
		}
	}
	faultInputs = []v2kit.Input{
		mk("empty", ""),
		mk("one-byte", "a"),
		mk("MIT", mit),
		mk("copyright+apache-header+truncated-rune", "Copyright 2019 Foo Bar\n"+apacheHdr+"\nsome license\xc3"),
		mk("multibyte-2300", mb.String()),
		mk("len-1023", strings.Repeat("license ", 128)[:1023]),
		mk("len-1024", strings.Repeat("license ", 128)[:1024]),
		mk("len-1025", strings.Repeat("license ", 129)[:1025]),
		mk("len-2047-hyphen", strings.Repeat("permis-\nsion ", 158)[:2047]),
	}
	if tier == "thorough" {
		for _, sc := range scs {
			if len(sc.Data) <= 12000 {
				faultInputs = append(faultInputs, v2kit.Input{Desc: "scenario:" + sc.Name, Data: sc.Data})
			}
		}
	}
	total := 0
	for _, in := range faultInputs {
		faultBase = append(faultBase, total)
		total += (len(in.Data) + 1) * v2kit.ErrKinds * 4
	}
	faultBase = append(faultBase, total)
	padBase = total

	padInputs = []v2kit.Input{
		mk("mit+multibyte-tail", mit+"\nCopyright © 2020 — Example 中文 Holder\n"),
		mk("truncated-rune-at-eof", "Copyright 2019 Foo\n"+apacheHdr+"\nsome license\xc3"),
		mk("truncated-3of4-at-eof", apacheHdr+"\nterms \xf0\x9f\x98"),
		mk("accent-doc+truncated-lead-byte", "preamble words\n"+accentDoc+"\xc3"),
	}
	padWorld = []int{0, 0, 0, 3}
	if tier == "thorough" {
		padInputs = append(padInputs, mk("multibyte-2300", mb.String()), v2kit.Input{Desc: "scenario:" + scs[0].Name, Data: scs[0].Data},
			mk("invalid-mid", "MIT License\n\xff\xfe "+mit+" \x80\x80"), mk("only-truncated", "\xe2\x82"))
		padWorld = append(padWorld, 0, 0, 0, 0)
	}
	padWidths = 2*bufSize + 8 + 1
	return nil
}

type enum struct{}

func (enum) Count(tier string) int {
	if tier == "selftest" {
		return 400 // the determinism self-test needs a sample only
	}
	return padBase + len(padInputs)*padWidths
}

func (enum) RunCase(i int, c *hlib.Ctx) *hlib.Run {
	if i < padBase {
		// fault case: locate input
		k := 0
		for faultBase[k+1] <= i {
			k++
		}
		j := i - faultBase[k]
		in := faultInputs[k]
		withData := j%2 == 1
		once := (j/2)%2 == 1
		j /= 4
		kind := j % v2kit.ErrKinds
		at := j / v2kit.ErrKinds
		style := []int{2, 1, 3, 0, 5}[(at+kind)%5]
		w := worlds[(at/7+kind)%len(worlds)]
		return faultRun(c, w, in, 0, at, kind, withData, once, style, true)
	}
	j := i - padBase
	in := padInputs[j/padWidths]
	pad := j % padWidths
	return equalRun(c, worlds[padWorld[j/padWidths]], in, pad, []int{2, 0, 1, 3, 4, 5}[pad%6], true)
}

func reference(w world, in v2kit.Input) classifier.Results {
	key := w.name + "\x00" + string(in.Data)
	if r, ok := refCache[key]; ok {
		return r
	}
	cp := append([]byte(nil), in.Data...)
	r := w.c.Match(cp)
	if len(refCache) < 4096 {
		refCache[key] = r
	}
	return r
}

func padded(in v2kit.Input, pad int) []byte {
	b := make([]byte, 0, pad+len(in.Data))
	b = append(b, bytes.Repeat([]byte{' '}, pad)...)
	return append(b, in.Data...)
}

// callMatchFrom runs MatchFrom and converts a panic into an error value.
func callMatchFrom(c *classifier.Classifier, r *v2kit.SimReader) (res classifier.Results, err error, panicked any) {
	defer func() {
		if p := recover(); p != nil {
			panicked = p
		}
	}()
	res, err = c.MatchFrom(r)
	return
}

func equalRun(c *hlib.Ctx, w world, in v2kit.Input, pad int, style int, enumerated bool) *hlib.Run {
	run := &hlib.Run{Counters: map[string]int64{}}
	ref := reference(w, in)
	data := padded(in, pad)
	before := append([]byte(nil), data...)

	rd := v2kit.NewSimReader(data, c.S, style, nil)
	rd.Trace = c.Trace
	got, err, pan := callMatchFrom(w.c, rd)
	addReaderStats(run, rd)
	run.Counters["equal_runs"]++
	if pad > 0 {
		run.Counters["padded_runs"]++
	}
	run.Sample = map[string]any{"mode": "fault-free", "world": w.name, "input": in.Desc, "len": len(in.Data), "pad": pad, "reader_style": style,
		"reads": rd.Stats.Reads, "short_reads": rd.Stats.ShortReads + rd.Stats.OneByte, "zero_reads": rd.Stats.ZeroReads, "data_with_eof": rd.Stats.DataWithEOF}
	run.Nontrivial = rd.Stats.ShortReads+rd.Stats.OneByte+rd.Stats.ZeroReads+rd.Stats.DataWithEOF > 0 || pad > 0
	run.Hash = hlib.Hash64(w.name, string(in.Data), fmt.Sprint(pad)) ^ rd.SchedHash
	run.Steps = rd.Stats.Reads
	if c.Trace {
		run.Trace = append(run.Trace, fmt.Sprintf("world=%s input=%s len=%d pad=%d style=%d", w.name, in.Desc, len(in.Data), pad, style))
		run.Trace = append(run.Trace, rd.Log()...)
	}
	probeInput(run, data)
	switch {
	case pan != nil:
		run.Violation = &hlib.Violation{Oracle: "no-panic", Class: "panic:fault-free", Message: fmt.Sprintf("MatchFrom panicked: %v", pan)}
	case err != nil:
		run.Violation = &hlib.Violation{Oracle: "fault-free-no-error", Class: "error-without-fault", Message: fmt.Sprintf("MatchFrom returned error %v from a reader that never failed", err)}
	case !bytes.Equal(before, data):
		run.Violation = &hlib.Violation{Oracle: "input-unchanged", Class: "input-modified", Message: "reader data was modified"}
	}
	if run.Violation != nil {
		return run
	}
	if d := v2kit.FirstDiff(ref, got); d != "" {
		what := "matchfrom-vs-match"
		if pad > 0 {
			// separate the two clauses: is it the pad or the streaming?
			pm := w.c.Match(append([]byte(nil), data...))
			if dd := v2kit.FirstDiff(ref, pm); dd != "" {
				what = "pad-invariance"
				d = dd
				got = pm
			}
		}
		run.Violation = &hlib.Violation{Oracle: what, Class: what + ":" + d,
			Message: fmt.Sprintf("%s differs in %s (world %s, input %s, pad %d)\n  reference Match(x): %s\n  observed:           %s", what, d, w.name, in.Desc, pad, v2kit.Pretty(ref), v2kit.Pretty(got))}
		return run
	}
	if pad > 0 && enumerated {
		// pad clause on the in-memory API as well
		pm := w.c.Match(append([]byte(nil), data...))
		if d := v2kit.FirstDiff(ref, pm); d != "" {
			run.Violation = &hlib.Violation{Oracle: "pad-invariance", Class: "pad-invariance:" + d,
				Message: fmt.Sprintf("Match(pad+x) differs from Match(x) in %s (input %s, pad %d)\n  Match(x):     %s\n  Match(pad+x): %s", d, in.Desc, pad, v2kit.Pretty(ref), v2kit.Pretty(pm))}
		}
	}
	return run
}

func faultRun(c *hlib.Ctx, w world, in v2kit.Input, pad, at, kind int, withData, once bool, style int, enumerated bool) *hlib.Run {
	run := &hlib.Run{Counters: map[string]int64{}}
	data := padded(in, pad)
	if at > len(data) {
		at = len(data)
	}
	e, kname := v2kit.MakeErr(kind)
	rd := v2kit.NewSimReader(data, c.S, style, &v2kit.Fault{At: at, Err: e, WithData: withData, Once: once})
	rd.Trace = c.Trace
	got, err, pan := callMatchFrom(w.c, rd)
	addReaderStats(run, rd)
	run.Counters["fault_runs"]++
	run.Counters["fault_kind_"+kname]++
	run.Sample = map[string]any{"mode": "fault", "world": w.name, "input": in.Desc, "len": len(data), "fault_at": at, "error": kname, "with_data": withData, "error_reported_once_then_eof": once, "reader_style": style, "reads": rd.Stats.Reads}
	run.Nontrivial = rd.Stats.FaultFired > 0
	run.Hash = hlib.Hash64(w.name, string(data), fmt.Sprint(at, kind, withData, once)) ^ rd.SchedHash
	run.Steps = rd.Stats.Reads
	if c.Trace {
		run.Trace = append(run.Trace, fmt.Sprintf("world=%s input=%s len=%d pad=%d fault_at=%d error=%s with_data=%v once=%v style=%d", w.name, in.Desc, len(in.Data), pad, at, kname, withData, once, style))
		run.Trace = append(run.Trace, rd.Log()...)
	}
	if rd.Stats.FaultFired == 0 {
		// the library stopped reading before the fault (cannot happen for
		// at <= len, but do not assume): nothing to check
		run.Counters["fault_not_reached"]++
		return run
	}
	cls := kname
	switch {
	case pan != nil:
		run.Violation = &hlib.Violation{Oracle: "no-panic", Class: "panic:fault:" + cls, Message: fmt.Sprintf("MatchFrom panicked after reader fault at %d: %v", at, pan)}
	case err == nil:
		run.Violation = &hlib.Violation{Oracle: "fault-surfaces", Class: "fault-swallowed:" + cls,
			Message: fmt.Sprintf("reader failed with %s (%v) at offset %d of %d but MatchFrom returned a nil error and %s", kname, e, at, len(data), v2kit.Pretty(got))}
	case !sameErr(err, e):
		run.Violation = &hlib.Violation{Oracle: "fault-surfaces", Class: "fault-replaced:" + cls,
			Message: fmt.Sprintf("reader failed with %v at offset %d but MatchFrom returned a different error: %v", e, at, err)}
	case len(got.Matches) != 0 || got.TotalInputLines != 0:
		run.Violation = &hlib.Violation{Oracle: "no-partial-results", Class: "partial-results:" + cls,
			Message: fmt.Sprintf("reader failed with %v at offset %d; MatchFrom returned the error together with partial results %s", e, at, v2kit.Pretty(got))}
	}
	return run
}

// sameErr: the returned error is the injected one (identity, or wrapping it).
func sameErr(got, injected error) (ok bool) {
	defer func() {
		if recover() != nil {
			ok = false
		}
	}()
	if reflect.TypeOf(injected).Comparable() {
		return errors.Is(got, injected)
	}
	// non-comparable dynamic type: compare by type and message through the chain
	for e := got; e != nil; e = errors.Unwrap(e) {
		if reflect.TypeOf(e) == reflect.TypeOf(injected) && e.Error() == injected.Error() {
			return true
		}
	}
	return false
}

func addReaderStats(run *hlib.Run, rd *v2kit.SimReader) {
	s := rd.Stats
	run.Counters["reads"] += s.Reads
	run.Counters["reads_one_byte"] += s.OneByte
	run.Counters["reads_short"] += s.ShortReads
	run.Counters["reads_full"] += s.FullReads
	run.Counters["reads_zero_len"] += s.ZeroReads
	run.Counters["reads_data_with_eof"] += s.DataWithEOF
	run.Counters["reads_bare_eof"] += s.BareEOF
	run.Counters["fault_fired"] += s.FaultFired
	run.Counters["fault_fired_with_data"] += s.FaultWithData
	run.Counters["reads_after_error_or_eof"] += s.ReadsAfterError
}

// probeInput computes reach probes from the input alone: does a multi-byte
// rune straddle a refill boundary (period bufSize-4 after the first refill is
// implementation detail, so use a conservative proxy: a multi-byte rune that
// covers any offset congruent to 1020..1023 mod 1020), does the input end in a
// truncated rune.
func probeInput(run *hlib.Run, data []byte) {
	for off := 1020; off < len(data); off += 1020 {
		for d := 0; d < 4 && off+d < len(data); d++ {
			if data[off+d]&0xC0 == 0x80 {
				run.Counters["probe_rune_straddles_refill_region"]++
				break
			}
		}
	}
	if n := len(data); n > 0 {
		// truncated rune at EOF: last bytes form an incomplete sequence
		for back := 1; back <= 3 && back <= n; back++ {
			b := data[n-back]
			if b&0xC0 == 0x80 {
				continue
			}
			need := 0
			switch {
			case b&0xE0 == 0xC0:
				need = 2
			case b&0xF0 == 0xE0:
				need = 3
			case b&0xF8 == 0xF0:
				need = 4
			}
			if need > back {
				run.Counters["probe_truncated_rune_at_eof"]++
			}
			break
		}
	}
}

func drawPad(s *choice.Stream) int {
	switch s.Pick([]int{4, 3, 3, 2}, "pad-kind") {
	case 0:
		return 0
	case 1:
		return s.Draw(8, "pad-small")
	case 2:
		// around the refill period
		return 1010 + s.Draw(24, "pad-near") + 1020*s.Draw(2, "pad-period")
	default:
		return s.Draw(2*bufSize+9, "pad-any")
	}
}

func seededRun(c *hlib.Ctx) *hlib.Run {
	s := c.S
	w := worlds[s.Pick([]int{5, 2, 2, 1}, "world")]
	maxLen := []int{0, 0, 1030, 2052, 3072, 5000, 200000}[s.Draw(7, "maxlen")]
	in := pool.Gen(s, maxLen)
	pad := drawPad(s)
	style := s.Pick([]int{6, 1, 1, 1, 1, 1}, "style")
	if c.RunIx%3 == 2 {
		n := pad + len(in.Data)
		at := 0
		switch s.Draw(4, "fault-pos") {
		case 0:
			at = s.Draw(n+1, "fault-at")
		case 1: // near a refill boundary
			at = 1016 + s.Draw(12, "fault-near") + 1020*s.Draw(1+n/1020, "fault-period")
		case 2:
			at = n - s.Draw(6, "fault-tail")
		case 3:
			at = s.Draw(6, "fault-head")
		}
		if at < 0 {
			at = 0
		}
		return faultRun(c, w, in, pad, at, s.Draw(v2kit.ErrKinds, "fault-kind"), s.Draw(2, "fault-withdata") == 1, s.Draw(2, "fault-once") == 1, style, false)
	}
	return equalRun(c, w, in, pad, style, s.Draw(4, "also-match-padded") == 0)
}

func main() {
	hlib.Main(&hlib.Harness{
		Property: "C08",
		Setup:    setup,
		Run:      seededRun,
		Enum:     enum{},
		Info: func() map[string]any {
			return map[string]any{
				"real_code":       []string{"v2 classifier (tokenizer, searchset, scoring, diff), go-diff: compiled unmodified from the tree under test"},
				"simulated":       []string{"io.Reader handed to MatchFrom: fragmentation, zero-length reads, data-with-EOF, sticky faults of 7 kinds (sentinel, wrapped sentinel, io.ErrUnexpectedEOF, io.ErrClosedPipe, non-comparable error type, error wrapping io.EOF, deadline) in 4 delivery forms; reader styles include a stuttering one (a zero-length read before every small chunk)"},
				"enumerated":      fmt.Sprintf("%d fault cases = every offset 0..len of %d inputs x 7 error kinds x 4 delivery forms (error alone / with the last bytes, sticky / reported once then EOF); %d pad cases = every width 0..%d of %d inputs", padBase, len(faultInputs), len(padInputs)*padWidths, padWidths-1, len(padInputs)),
				"worlds":          []string{"full embedded corpus @0.8", "every 9th document @0.7", "every 9th document @1.0", "every 9th document plus a user-added document of accented words @0.8"},
				"fault_free_runs": "seeded runs with index%3 != 2; faults only in runs with index%3 == 2 (separate configurations)",
			}
		},
	})
}
