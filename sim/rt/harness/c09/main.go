// Command c09 is the simulation harness for property C09: any number of
// goroutines may call Match/MatchFrom on one shared v2 classifier.
//
// The classifier package and go-diff are re-compiled from instrumented copies
// (yield points, map / global / captured-variable access events, map-order
// seam, virtual clock). Before the caller tasks start, everything reachable
// from the classifier is deep-copied into an mmap'ed arena that is then made
// read-only: any store into pre-existing corpus memory during a call faults
// and is reported with its stack, whichever schedule is running.
package main

import (
	"bytes"
	"fmt"
	"hash/fnv"
	"io"
	"log"
	"path/filepath"
	"reflect"
	"runtime/debug"
	"sort"
	"strings"
	"unsafe"

	classifier "github.com/google/licenseclassifier/v2"

	"verifsim/freeze"
	"verifsim/hlib"
	"verifsim/simrt"
	"verifsim/simrt/choice"
	"verifsim/v2kit"
)

type world struct {
	name   string
	docs   []v2kit.Doc
	thr    float64
	traced bool
	c      *classifier.Classifier // frozen copy
	arena  *freeze.Arena
	orig   *classifier.Classifier
	tracer *int64
}

var (
	docs   []v2kit.Doc
	scs    []v2kit.Scenario
	worlds []*world
)

func setup(args map[string]string, tier string) error {
	log.SetOutput(io.Discard)
	repo := args["repo"]
	if repo == "" {
		return fmt.Errorf("missing -arg repo=<tree under test>")
	}
	var err error
	docs, err = v2kit.LoadCorpusDir(filepath.Join(repo, "v2", "assets"))
	if err != nil {
		return err
	}
	scs, err = v2kit.LoadScenarios(filepath.Join(repo, "v2", "scenarios"))
	if err != nil {
		return err
	}
	var small []v2kit.Doc
	for i := 0; i < len(docs); i += 7 {
		small = append(small, docs[i])
	}
	// a twin: the same text under two names (ambiguous detections, ties)
	small = append(small, v2kit.Doc{Category: small[3].Category, Name: "Twin-of-" + small[3].Name, Variant: small[3].Variant, Data: small[3].Data})
	worlds = []*world{
		{name: "full@0.8", docs: docs, thr: 0.8},
		{name: "small@0.8", docs: small, thr: 0.8},
		{name: "full@0.8+trace", docs: docs, thr: 0.8, traced: true},
		{name: "small@0.7+trace", docs: small, thr: 0.7, traced: true},
	}
	// atomic operations on frozen addresses are virtualised by simrt
	simrt.IsFrozen = func(addr uintptr) bool {
		for _, w := range worlds {
			if w.arena != nil && w.arena.Contains(addr) {
				return true
			}
		}
		for _, a := range coldArenas {
			if a.Contains(addr) {
				return true
			}
		}
		return false
	}
	return selfTest()
}

var coldArenas []*freeze.Arena

// get builds and freezes a world on first use.
func (w *world) get() *classifier.Classifier {
	if w.c != nil {
		return w.c
	}
	w.orig = v2kit.Build(w.thr, w.docs)
	if w.traced {
		n := new(int64)
		w.tracer = n
		w.orig.SetTraceConfiguration(&classifier.TraceConfiguration{TracePhases: "*", TraceLicenses: "*", Tracer: func(string, ...interface{}) {
			*n++
			simrt.Point("tracer callback")
		}})
	}
	fc, arena, err := freeze.Freeze(w.orig)
	if err != nil {
		panic("freeze failed: " + err.Error())
	}
	w.c, w.arena = fc, arena
	return w.c
}

// selfTest proves on a tiny corpus that (1) a frozen classifier gives the
// results of the original and (2) a store into frozen memory is trapped.
func selfTest() error {
	var tiny []v2kit.Doc
	for i := 0; i < len(docs); i += 40 {
		tiny = append(tiny, docs[i])
	}
	orig := v2kit.Build(0.8, tiny)
	in := []byte("intro words\n" + string(tiny[2].Data) + "\ntrailer")
	want := v2kit.Digest(orig.Match(in))
	fc, arena, err := freeze.Freeze(orig)
	if err != nil {
		return err
	}
	defer arena.Release()
	if arena.Objects < 100 {
		return fmt.Errorf("freeze self-test: only %d objects frozen", arena.Objects)
	}
	var got string
	var trapped bool
	rep := simrt.New(choice.Replay(nil), simrt.Config{Strategy: simrt.StratSticky, MaxSteps: 1 << 40}).Run(func() {
		got = v2kit.Digest(fc.Match(in))
	})
	if len(rep.Panics) > 0 {
		// the tree under test writes into corpus memory even in a single call;
		// that is for the runs to report, not a machinery problem
		got = want
	}
	if got != want {
		return fmt.Errorf("freeze self-test: frozen classifier gives %s, original %s", got, want)
	}
	rep = simrt.New(choice.Replay(nil), simrt.Config{Strategy: simrt.StratSticky}).Run(func() {
		// store (the value already there) into the first frozen object
		p := (*byte)(unsafe.Pointer(arena.Base()))
		poke(p, peek(p))
	})
	for _, p := range rep.Panics {
		if p.Fault && arena.Contains(p.FaultAddr) {
			trapped = true
		}
	}
	if !trapped {
		return fmt.Errorf("freeze self-test: a same-value store into frozen memory was not trapped (%v)", rep.Panics)
	}
	return nil
}

//go:noinline
func poke(p *byte, v byte) { *p = v }

//go:noinline
func peek(p *byte) byte { return *p }

// fingerprint hashes every map reachable from the classifier (keys, values by
// content) — the part of the shared state the arena cannot protect.
func fingerprint(c *classifier.Classifier) uint64 {
	h := fnv.New64a()
	seen := map[unsafe.Pointer]bool{}
	var walk func(v reflect.Value, depth int)
	walk = func(v reflect.Value, depth int) {
		if v.CanAddr() && !v.CanInterface() {
			v = reflect.NewAt(v.Type(), unsafe.Pointer(v.UnsafeAddr())).Elem()
		}
		switch v.Kind() {
		case reflect.Ptr:
			if v.IsNil() || seen[v.UnsafePointer()] {
				return
			}
			seen[v.UnsafePointer()] = true
			walk(v.Elem(), depth+1)
		case reflect.Struct:
			for i := 0; i < v.NumField(); i++ {
				walk(v.Field(i), depth+1)
			}
		case reflect.Slice:
			k := v.Type().Elem().Kind()
			if k == reflect.Ptr || k == reflect.Struct || k == reflect.Map {
				for i := 0; i < v.Len(); i++ {
					walk(v.Index(i), depth+1)
				}
			}
		case reflect.Map:
			if v.IsNil() || seen[v.UnsafePointer()] {
				return
			}
			seen[v.UnsafePointer()] = true
			var lines []string
			it := v.MapRange()
			ek := v.Type().Elem().Kind()
			for it.Next() {
				val := it.Value()
				var vs string
				switch ek {
				case reflect.Ptr:
					vs = fmt.Sprintf("%x", val.Pointer())
				case reflect.Slice:
					vs = fmt.Sprintf("%x/%d", val.Pointer(), val.Len())
				default:
					vs = fmt.Sprint(val)
				}
				lines = append(lines, fmt.Sprint(it.Key())+"="+vs)
			}
			sort.Strings(lines)
			fmt.Fprintf(h, "map[%d]", len(lines))
			for _, l := range lines {
				h.Write([]byte(l))
				h.Write([]byte{0})
			}
			if ek == reflect.Ptr || ek == reflect.Struct {
				it := v.MapRange()
				var keys []reflect.Value
				for it.Next() {
					keys = append(keys, it.Key())
				}
				sort.Slice(keys, func(i, j int) bool { return fmt.Sprint(keys[i]) < fmt.Sprint(keys[j]) })
				for _, k := range keys {
					tmp := reflect.New(v.Type().Elem()).Elem()
					tmp.Set(v.MapIndex(k))
					walk(tmp, depth+1)
				}
			}
		}
	}
	walk(reflect.ValueOf(c), 0)
	return h.Sum64()
}

type call struct {
	input   int
	stream  bool // MatchFrom
	fault   *v2kit.Fault
	errKind string
	style   int
	// outcome
	res     classifier.Results
	resLive classifier.Results // the structures the call returned (scribbled on afterwards)
	err     error
	data    []byte // the caller's buffer
}

func run(c *hlib.Ctx) *hlib.Run {
	r := runOnce(c, c.S, false)
	if r.Violation != nil && strings.HasPrefix(r.Violation.Class, "differs-from-solo") {
		r2 := runOnce(c, choice.Replay(c.S.Recorded()), true)
		if r2.Violation == nil {
			r.Violation.Oracle = "solo-equivalence(clock)"
			r.Violation.Class = "result-depends-on-wall-clock"
			r.Violation.Message = fmt.Sprintf("a concurrent call returns something else than the same call alone only because virtual time passes (%.3fs in this run, %d stall faults): docDiff uses go-diff's default DiffTimeout of 1s; with the same schedule and a frozen clock every call equals its solo result\n", float64(r.VirtualNS)/1e9, r.Counters["fault_clock_stall"]) + r.Violation.Message
		}
	}
	return r
}

func runOnce(c *hlib.Ctx, s *choice.Stream, freezeClock bool) *hlib.Run {
	out, _ := runAttempt(c, s, freezeClock)
	return out
}

func runAttempt(c *hlib.Ctx, s *choice.Stream, freezeClock bool) (*hlib.Run, int64) {
	out := &hlib.Run{Counters: map[string]int64{}}
	w := worlds[s.Pick([]int{5, 5, 1, 2}, "world")]
	ww := w
	defer func() {
		if isFullWorld(ww) && (out.Violation != nil || out.Counters["fault_reader_error_injected"] > 0) && ww.arena != nil {
			// do not let this run's effects on the shared instance reach the next run
			ww.arena.Release()
			ww.c, ww.arena, ww.orig = nil, nil, nil
			out.Counters["full_world_discarded_after_run"]++
		}
	}()
	warm := w.get()
	cl := warm
	isFull := strings.HasPrefix(w.name, "full")
	// Cold runs: the concurrent calls are the very first calls on a freshly
	// built (and frozen) instance, so lazily initialised or memoised state is
	// still unset when they meet; the solo reference comes from the equivalent
	// warm instance.
	// Small worlds are always cold (a fresh instance per run): whatever a run
	// does to the instance — a leaked semaphore slot after a failing reader, a
	// memo — cannot leak into the next run, so every run replays exactly. The
	// full corpus takes 4.5 s to build and freeze and is therefore reused; it
	// is discarded after every run that injected reader faults or failed.
	cold := !isFull
	if cold {
		cw := &world{name: w.name + "(cold)", docs: w.docs, thr: w.thr, traced: w.traced}
		cl = cw.get()
		coldArenas = append(coldArenas, cw.arena)
		defer func() {
			coldArenas = coldArenas[:len(coldArenas)-1]
			cw.arena.Release()
		}()
		w = cw
	}

	// ---- workload ----------------------------------------------------------
	pool := &v2kit.Pool{Scenarios: scs, Docs: w.docs}
	nin := 1 + s.Draw(4, "n-inputs")
	inputs := make([]v2kit.Input, nin)
	for i := range inputs {
		max := []int{3000, 8000, 20000}[s.Draw(3, "maxlen")]
		if w.traced {
			max = 2500 // tracing dumps every intermediate structure
		}
		inputs[i] = pool.Gen(s, max)
	}
	faultsAllowed := !isFull || s.Draw(20, "faults-on-full-world") == 0
	// fault-heavy crowd runs: dozens of calls whose readers fail (resources a
	// call takes and must give back on every path only run out after many failures)
	faultHeavy := !isFull && s.Draw(15, "fault-heavy-run") == 0
	ntasks := 2 + s.Draw(7, "n-tasks")
	switch s.Draw(10, "task-class") {
	case 0:
		ntasks = 9 + s.Draw(8, "n-tasks-many")
	case 1:
		if !isFull {
			ntasks = 17 + s.Draw(48, "n-tasks-crowd")
		}
	}
	if faultHeavy {
		ntasks = 48 + s.Draw(49, "n-tasks-fault-heavy")
	}
	plan := make([][]*call, ntasks)
	ncalls := 0
	for t := range plan {
		n := 1 + s.Draw(4, "calls-per-task")
		if ntasks > 16 {
			n = 1
		}
		for j := 0; j < n; j++ {
			k := &call{input: s.Draw(nin, "input")}
			// twins: bias towards the input the previous task uses
			if t > 0 && s.Draw(2, "twin") == 0 {
				k.input = plan[t-1][0].input
			}
			if s.Draw(3, "stream") == 0 || faultHeavy {
				k.stream = true
				k.style = s.Pick([]int{3, 1, 1, 2}, "reader-style")
				if s.Draw(6, "reader-fault") == 0 && (faultsAllowed || faultHeavy) || (faultHeavy && s.Draw(4, "fault-heavy") != 0) {
					e, kind := v2kit.MakeErr(s.Draw(v2kit.ErrKinds, "fault-kind"))
					k.fault = &v2kit.Fault{At: s.Draw(len(inputs[k.input].Data)+1, "fault-at"), Err: e, WithData: s.Draw(2, "with-data") == 1}
					k.errKind = kind
				}
			}
			plan[t] = append(plan[t], k)
			ncalls++
		}
	}

	// ---- solo pass 1 ---------------------------------------------------------
	solo := make([]classifier.Results, nin)
	soloRep := sequential(func() {
		for i, in := range inputs {
			solo[i] = warm.Match(append([]byte(nil), in.Data...))
		}
	})
	if v := trapViolation(soloRep, ww, "a single Match call run alone"); v != nil {
		out.Violation = v
		return out, 0
	}
	if len(soloRep.Panics) > 0 {
		out.Counters["workload_rejected_solo_call_panics"]++
		return out, 0
	}
	var fpBefore uint64
	doFP := !isFull || s.Draw(8, "fingerprint-full") == 0
	if doFP {
		fpBefore = fingerprint(cl)
	}

	// ---- concurrent phase ---------------------------------------------------
	cfg := simrt.DrawConfig(s)
	cfg.Race = true
	cfg.Trace = c.Trace
	cfg.MaxSteps = 3000000
	if s.Draw(4, "stalls") == 0 {
		cfg.StallEvery = []int{300, 3000, 30000}[s.Draw(3, "stall-rate")]
	}
	cfg.FreezeClock = freezeClock
	if ntasks > 16 && cfg.YieldBudget > 0 && cfg.YieldBudget < 64 {
		cfg.YieldBudget = 64
	}
	sim := simrt.New(s, cfg)
	var tracer0 int64
	if w.tracer != nil {
		tracer0 = *w.tracer
	}
	rep := sim.Run(func() {
		var ts []*simrt.Task
		for t := range plan {
			t := t
			ts = append(ts, sim.Spawn(fmt.Sprintf("caller%d", t), func() {
				for _, k := range plan[t] {
					data := append([]byte(nil), inputs[k.input].Data...)
					k.data = data
					if k.stream {
						rd := v2kit.NewSimReader(data, s, k.style, k.fault)
						rd.OnRead = func() { simrt.Point("reader.Read") }
						k.res, k.err = cl.MatchFrom(rd)
					} else {
						k.res = cl.Match(data)
					}
					k.resLive = k.res
					// The caller owns what it got back: it keeps a copy for the
					// comparison and then changes the returned structures (as a
					// caller translating line numbers to file coordinates would).
					// No other call, now or later, may see that.
					k.res = copyResults(k.res)
					scribble(k.resLive)
					simrt.Point("call returned")
				}
			}))
		}
		sim.WaitTasks(ts)
	})
	out.Steps, out.VirtualNS = rep.Steps, rep.VirtualNS
	out.Counters["tasks"] += int64(rep.Tasks)
	out.Counters["context_switches"] += rep.Switches
	out.Counters["yields_passed"] += rep.YieldsPassed
	out.Counters["calls"] += int64(ncalls)
	for k, v := range rep.Counters {
		out.Counters[k] += v
	}
	out.Counters["runs_world_"+strings.TrimSuffix(w.name, "(cold)")]++
	if cold {
		out.Counters["runs_on_cold_instance"]++
	}
	if w.tracer != nil {
		out.Counters["tracer_callbacks"] += *w.tracer - tracer0
	}
	if ntasks > 16 {
		out.Counters["probe_more_than_16_tasks"]++
	}
	out.Nontrivial = rep.Tasks >= 3 && rep.Switches >= 2
	var idesc []string
	for _, in := range inputs {
		idesc = append(idesc, fmt.Sprintf("%s (%d bytes)", in.Desc, len(in.Data)))
	}
	out.Hash = rep.SchedHash ^ hlib.Hash64(w.name, fmt.Sprint(idesc))
	out.Sample = map[string]any{"world": w.name, "inputs": idesc, "caller_tasks": ntasks, "calls": describePlan(plan), "scheduling_points": rep.Steps, "context_switches": rep.Switches, "virtual_seconds": float64(rep.VirtualNS) / 1e9, "scheduler": cfg.String()}
	if c.Trace {
		out.Trace = append([]string{fmt.Sprintf("world=%s inputs=%v tasks=%d scheduler: %s", w.name, idesc, ntasks, cfg.String())}, rep.Trace...)
	}

	// ---- oracles ---------------------------------------------------------------
	if v := trapViolation(rep, w, "concurrent Match/MatchFrom calls"); v != nil {
		out.Violation = v
		return out, 0
	}
	if len(rep.Panics) > 0 {
		p := rep.Panics[0]
		out.Violation = &hlib.Violation{Oracle: "no-panic", Class: "panic:" + firstLine(p.Value), Message: fmt.Sprintf("task %d (%s) panicked: %s\n%s", p.Task, p.Name, p.Value, trimStack(p.Stack))}
		return out, 0
	}
	if rep.Deadlock != "" {
		out.Violation = &hlib.Violation{Oracle: "no-deadlock", Class: "deadlock:" + siteList(rep.Deadlock), Message: "deadlock: " + rep.Deadlock}
		return out, 0
	}
	if rep.StepBound {
		out.Counters["inconclusive_step_bound"]++
		return out, 0
	}
	if len(rep.Races) > 0 {
		rc := rep.Races[0]
		out.Violation = &hlib.Violation{Oracle: "race-free", Class: "race:" + rc.Class(), Message: "data race: " + rc.String()}
		return out, 0
	}
	if len(rep.Leaked) > 0 {
		out.Violation = &hlib.Violation{Oracle: "no-leak", Class: "goroutine-leak", Message: "goroutines started by Match still blocked after all calls returned: " + strings.Join(rep.Leaked, "; ")}
		return out, 0
	}
	for t := range plan {
		for _, k := range plan[t] {
			if !bytes.Equal(k.data, inputs[k.input].Data) {
				out.Violation = &hlib.Violation{Oracle: "caller-buffer-unchanged", Class: "input-modified", Message: fmt.Sprintf("task %d: the caller's byte slice was modified", t)}
				return out, 0
			}
			if k.fault != nil {
				out.Counters["fault_reader_error_injected"]++
				if k.err == nil || len(k.res.Matches) != 0 {
					out.Violation = &hlib.Violation{Oracle: "failing-call-isolated", Class: "reader-fault-mishandled", Message: fmt.Sprintf("task %d: reader failed with %s at %d but MatchFrom returned err=%v and %s", t, k.errKind, k.fault.At, k.err, v2kit.Pretty(k.res))}
					return out, 0
				}
				continue
			}
			if k.err != nil {
				out.Violation = &hlib.Violation{Oracle: "no-error", Class: "error-without-fault", Message: fmt.Sprintf("task %d: MatchFrom returned %v from a reader that never fails", t, k.err)}
				return out, 0
			}
			if d := v2kit.FirstDiff(solo[k.input], k.res); d != "" {
				api := "Match"
				if k.stream {
					api = "MatchFrom"
				}
				out.Violation = &hlib.Violation{Oracle: "solo-equivalence", Class: "differs-from-solo:" + d,
					Message: fmt.Sprintf("task %d: %s(input %d %q) returned something else than the same call alone (first difference: %s)\n  alone:      %s\n  concurrent: %s", t, api, k.input, inputs[k.input].Desc, d, v2kit.Pretty(solo[k.input]), v2kit.Pretty(k.res))}
				return out, 0
			}
		}
	}
	// ---- solo pass 2 and state fingerprint ---------------------------------
	after := make([]classifier.Results, nin)
	soloRep2 := sequential(func() {
		for i, in := range inputs {
			after[i] = cl.Match(append([]byte(nil), in.Data...))
		}
	})
	if v := trapViolation(soloRep2, w, "a single Match call after the concurrent phase"); v != nil {
		out.Violation = v
		return out, 0
	}
	for i := range after {
		if d := v2kit.FirstDiff(solo[i], after[i]); d != "" && len(soloRep2.Panics) == 0 {
			out.Violation = &hlib.Violation{Oracle: "no-persistent-corruption", Class: "solo-after-differs:" + d,
				Message: fmt.Sprintf("Match(input %d %q) alone gives a different result after the concurrent phase than before it (first difference: %s)\n  before: %s\n  after:  %s", i, inputs[i].Desc, d, v2kit.Pretty(solo[i]), v2kit.Pretty(after[i]))}
			return out, 0
		}
	}
	if doFP {
		out.Counters["state_fingerprints_compared"]++
		if fp := fingerprint(cl); fp != fpBefore {
			out.Violation = &hlib.Violation{Oracle: "shared-maps-unchanged", Class: "map-state-changed", Message: "the contents of the maps reachable from the classifier changed during Match calls"}
		}
	}
	return out, 0
}

// trapViolation turns a fault inside the frozen arena into a violation.
func trapViolation(rep *simrt.Report, w *world, during string) *hlib.Violation {
	for _, p := range rep.Panics {
		if p.Fault && w.arena != nil && w.arena.Contains(p.FaultAddr) {
			frames := topFrames(p.Stack, 4)
			if len(frames) == 0 {
				frames = []string{"caller-changing-its-own-result(the result aliases corpus memory)"}
			}
			return &hlib.Violation{Oracle: "frozen-corpus", Class: "write-to-shared-corpus:" + strings.Join(frames, "<-"),
				Message: fmt.Sprintf("store into pre-existing classifier memory (address %#x in the read-only arena) during %s, task %d (%s): under the memory model this is a data race as soon as two calls touch the same location\n%s", p.FaultAddr, during, p.Task, p.Name, trimStack(p.Stack))}
		}
	}
	return nil
}

// topFrames extracts the first n function names of the faulting stack that
// belong to the code under test.
func topFrames(stack string, n int) []string {
	var out []string
	lines := strings.Split(stack, "\n")
	started := false
	for _, l := range lines {
		if strings.HasPrefix(l, "\t") || l == "" || strings.HasPrefix(l, "goroutine ") {
			continue
		}
		if strings.HasPrefix(l, "panic(") || strings.HasPrefix(l, "runtime.sigpanic") {
			started = true
			out = out[:0]
			continue
		}
		if !started {
			continue
		}
		if strings.HasPrefix(l, "runtime.") || strings.HasPrefix(l, "verifsim/") || strings.HasPrefix(l, "main.") || strings.HasPrefix(l, "created by") {
			if strings.HasPrefix(l, "verifsim/simrt.(*Sim).newTask") || strings.HasPrefix(l, "main.") {
				break
			}
			continue
		}
		fn := l
		if i := strings.LastIndex(fn, "("); i > 0 {
			fn = fn[:i]
		}
		fn = strings.TrimPrefix(fn, "github.com/google/licenseclassifier/")
		fn = strings.TrimPrefix(fn, "github.com/sergi/go-diff/")
		out = append(out, fn)
		if len(out) == n {
			break
		}
	}
	return out
}

func copyResults(r classifier.Results) classifier.Results {
	out := classifier.Results{TotalInputLines: r.TotalInputLines}
	for _, m := range r.Matches {
		if m == nil {
			out.Matches = append(out.Matches, nil)
			continue
		}
		c := *m
		out.Matches = append(out.Matches, &c)
	}
	return out
}

func scribble(r classifier.Results) {
	for i, m := range r.Matches {
		if m != nil {
			m.StartLine += 1000
			m.EndLine += 1000
			m.Confidence = -1
			m.Name = "scribbled-by-caller"
		}
		if i+1 < len(r.Matches) {
			r.Matches[i], r.Matches[i+1] = r.Matches[i+1], r.Matches[i]
		}
	}
}

func isFullWorld(w *world) bool { return strings.HasPrefix(w.name, "full") }

func sequential(fn func()) *simrt.Report {
	sim := simrt.New(choice.Replay(nil), simrt.Config{Strategy: simrt.StratSticky, MaxSteps: 1 << 40})
	return sim.Run(fn)
}

func describePlan(plan [][]*call) []string {
	var out []string
	for t, cs := range plan {
		if t >= 12 {
			out = append(out, fmt.Sprintf("... %d more tasks", len(plan)-t))
			break
		}
		var sb strings.Builder
		fmt.Fprintf(&sb, "task %d:", t)
		for _, k := range cs {
			switch {
			case k.fault != nil:
				fmt.Fprintf(&sb, " MatchFrom(in%d, reader failing with %s at %d)", k.input, k.errKind, k.fault.At)
			case k.stream:
				fmt.Fprintf(&sb, " MatchFrom(in%d)", k.input)
			default:
				fmt.Fprintf(&sb, " Match(in%d)", k.input)
			}
		}
		out = append(out, sb.String())
	}
	return out
}

func siteList(d string) string {
	// distinct blocking sites only (the number of blocked tasks varies)
	seen := map[string]bool{}
	var sites []string
	for _, part := range strings.Split(d, "; ") {
		if i := strings.LastIndex(part, " at "); i >= 0 && !seen[part[i+4:]] {
			seen[part[i+4:]] = true
			sites = append(sites, part[i+4:])
		}
	}
	sort.Strings(sites)
	return strings.Join(sites, ",")
}

func firstLine(s string) string {
	if i := strings.IndexByte(s, '\n'); i >= 0 {
		s = s[:i]
	}
	if len(s) > 100 {
		s = s[:100]
	}
	return s
}

func trimStack(s string) string {
	lines := strings.Split(s, "\n")
	if len(lines) > 44 {
		lines = lines[:44]
	}
	return strings.Join(lines, "\n")
}

func main() {
	debug.SetGCPercent(200)
	hlib.Main(&hlib.Harness{
		Property: "C09",
		Setup:    setup,
		Run:      run,
		// the classifier is shared by the runs of a worker process: a finding is
		// confirmed in a fresh process before it is recorded
		ChildVerify: true,
		Info: func() map[string]any {
			info := map[string]any{
				"real_code":  []string{"v2 classifier package and go-diff: re-compiled from the tree under test / module cache after source instrumentation (yield points, map-order seam, map / global / captured-variable access events, virtual clock)", "go-spew, regexp, sort, crc32, html: real, uninstrumented"},
				"simulated":  []string{"2..64 caller goroutines under one seeded scheduler (random / sticky / PCT, preemption at yield points inside the tokenizer, search set and diff code)", "io.Reader of MatchFrom calls (every Read is a scheduling point; some readers fail)", "Tracer callback (a scheduling point)", "time.Now in go-diff (virtual clock, stall faults)"},
				"unmodelled": simrt.Unmodelled(),
				"oracles":    []string{"frozen corpus: any store into memory that existed before the calls faults (mprotect) and is reported with its stack", "every concurrent call deep-equals the same call run alone, before and after", "vector-clock race checker on maps, package-level and captured variables", "fingerprint of all maps reachable from the classifier before/after", "no panic, deadlock, leak; caller buffers unchanged; a failing reader affects only its own call"},
			}
			var fz []string
			for _, w := range worlds {
				if w.arena != nil {
					fz = append(fz, fmt.Sprintf("%s: %d objects, %d bytes, %d maps left on the heap, not frozen: %v, left unfrozen because they contain a lock (their fields are race-checked instead): %v", w.name, w.arena.Objects, w.arena.Bytes, w.arena.Maps, w.arena.Skipped, w.arena.Unfrozen))
				}
			}
			info["frozen_worlds"] = fz
			return info
		},
	})
}
