// Command c04 is the simulation harness for property C04: Match is a
// deterministic, side-effect-free function of corpus and input.
//
// The v2 classifier package is compiled from an instrumented copy in which
// every `range` over a map goes through simrt.MapKeys, so the iteration order
// of every map in the code under test is a seeded permutation. A run builds a
// world (corpus subset, threshold, up to three instances: canonical insertion
// order, permuted insertion order, permuted plus unrelated documents), then
// applies a drawn history of Match / MatchFrom / Normalize /
// SetTraceConfiguration / switch-instance operations. The reference model is
// the mathematical function input -> Results, learned from the first
// observation; every later observation must be bit-identical.
package main

import (
	"bytes"
	"encoding/json"
	"fmt"
	"io"
	"os"
	"path/filepath"
	"sort"
	"strings"

	classifier "github.com/google/licenseclassifier/v2"

	"verifsim/hlib"
	"verifsim/simrt"
	"verifsim/simrt/choice"
	"verifsim/v2kit"
)

var (
	docs     []v2kit.Doc
	coreDocs []int // indices of popular licenses (so that scenario inputs match something)
	scs      []v2kit.Scenario
)

func setup(args map[string]string, tier string) error {
	repo := args["repo"]
	if repo == "" {
		return fmt.Errorf("missing -arg repo=<tree under test>")
	}
	var err error
	docs, err = v2kit.LoadCorpusDir(filepath.Join(repo, "v2", "assets"))
	if err != nil {
		return err
	}
	scs, err = v2kit.LoadScenarios(filepath.Join(repo, "v2", "scenarios"))
	if err != nil {
		return err
	}
	for i, d := range docs {
		for _, p := range []string{"Apache-2.0", "MIT", "BSD-2-Clause", "BSD-3-Clause", "GPL-2.0", "GPL-3.0", "LGPL-2.1", "LGPL-3.0", "MPL-2.0", "ISC", "Unlicense", "Zlib", "NCSA", "AGPL-3.0", "MPL-1.1", "NPL-1.1"} {
			if d.Name == p {
				coreDocs = append(coreDocs, i)
			}
		}
	}
	if len(coreDocs) < 10 {
		return fmt.Errorf("corpus lacks the popular licenses the workload is biased to")
	}
	return nil
}

// refReq asks a fresh process for Match results on a canonically built
// instance (sorted insertion, no unrelated documents, no tracing, no history).
type refReq struct {
	Docs      []int    `json:"docs"`  // indices into the corpus
	Twins     []int    `json:"twins"` // positions in Docs whose text is added again: under the name Twin-<k> (even k) or under the same name as variant twin-<k>.<variant> (odd k)
	Threshold float64  `json:"threshold"`
	Inputs    [][]byte `json:"inputs"`
}

func worldDocs(r *refReq) []v2kit.Doc {
	var w []v2kit.Doc
	for _, j := range r.Docs {
		w = append(w, docs[j])
	}
	for k, p := range r.Twins {
		d := w[p]
		if k%2 == 1 {
			// same license name, another variant with the same text: only Variant
			// distinguishes the two results (round 4, C04-m13)
			w = append(w, v2kit.Doc{Category: d.Category, Name: d.Name, Variant: fmt.Sprintf("twin-%d.%s", k, d.Variant), Data: d.Data}) // keeps the "txt" suffix LoadLicenses filters on
			continue
		}
		w = append(w, v2kit.Doc{Category: d.Category, Name: fmt.Sprintf("Twin-%d", k), Variant: d.Variant, Data: d.Data})
	}
	return w
}

func refServe(in io.Reader, out io.Writer) error {
	var req refReq
	if err := json.NewDecoder(in).Decode(&req); err != nil {
		return err
	}
	c := v2kit.Build(req.Threshold, worldDocs(&req))
	res := make([]classifier.Results, len(req.Inputs))
	for i, x := range req.Inputs {
		res[i] = c.Match(x)
	}
	return json.NewEncoder(out).Encode(res)
}

type instance struct {
	name string
	c    *classifier.Classifier
}

type observation struct {
	res  classifier.Results
	desc string
}

func unrelatedDoc(s *choice.Stream, k int) v2kit.Doc {
	var sb strings.Builder
	n := 20 + s.Draw(200, "unrelated-len")
	for i := 0; i < n; i++ {
		fmt.Fprintf(&sb, "xq%dw%d ", k, s.Draw(60, "unrelated-word"))
		if i%11 == 10 {
			sb.WriteByte('\n')
		}
	}
	return v2kit.Doc{Category: "License", Name: fmt.Sprintf("Unrelated-%d", k), Variant: "license.txt", Data: []byte(sb.String())}
}

func run(c *hlib.Ctx) *hlib.Run {
	s := c.S
	out := &hlib.Run{Counters: map[string]int64{}}
	cfg := simrt.Config{Strategy: simrt.StratSticky, ShuffleMaps: s.Draw(8, "shuffle-maps") != 0, Trace: false, MaxSteps: 1 << 40}
	sim := simrt.New(s, cfg)
	var viol *hlib.Violation
	var trace []string
	tr := func(f string, a ...any) {
		if c.Trace {
			trace = append(trace, fmt.Sprintf(f, a...))
		}
	}
	distinctObs := 0
	repeated := 0
	var sample map[string]any

	rep := sim.Run(func() {
		// ---- world ---------------------------------------------------------
		threshold := []float64{0.7, 0.75, 0.8, 0.8, 0.9, 1.0, 0.85, 0.95}[s.Draw(8, "threshold")] // not below 0.7: q-grams of one or two words make a single Match of a long input take tens of seconds
		var idx []int
		full := s.Draw(12, "full-corpus") == 0
		if full {
			for i := range docs {
				idx = append(idx, i)
			}
		} else {
			n := 5 + s.Draw([]int{8, 20, 56, 150}[s.Draw(4, "corpus-size-class")], "corpus-size")
			// draw n distinct documents (bounded: no rejection loop)
			core := append([]int(nil), coreDocs...)
			isCore := map[int]bool{}
			for _, i := range coreDocs {
				isCore[i] = true
			}
			var rest []int
			for i := range docs {
				if !isCore[i] {
					rest = append(rest, i)
				}
			}
			for len(idx) < n && len(core)+len(rest) > 0 {
				from := &rest
				if len(rest) == 0 || (len(core) > 0 && s.Draw(2, "core?") == 0) {
					from = &core
				}
				k := s.Draw(len(*from), "pick-doc")
				idx = append(idx, (*from)[k])
				(*from)[k] = (*from)[len(*from)-1]
				*from = (*from)[:len(*from)-1]
			}
			sort.Ints(idx)
		}
		req := &refReq{Docs: idx, Threshold: threshold}
		if !full {
			for k := 0; k < s.Pick([]int{3, 2, 1, 1}, "n-twins"); k++ {
				req.Twins = append(req.Twins, s.Draw(len(idx), "twin-of"))
			}
		}
		world := worldDocs(req)
		ninst := 1 + s.Draw(3, "instances")
		if full {
			ninst = 1 + s.Draw(2, "instances")
		}
		build := func(order []int, extra []v2kit.Doc, name string) instance {
			cl := classifier.NewClassifier(threshold)
			all := make([]v2kit.Doc, 0, len(order)+len(extra))
			for _, i := range order {
				all = append(all, world[i])
			}
			// unrelated documents are interleaved at drawn positions
			for _, e := range extra {
				p := s.Draw(len(all)+1, "extra-pos")
				all = append(all[:p], append([]v2kit.Doc{e}, all[p:]...)...)
			}
			for _, d := range all {
				data := append([]byte(nil), d.Data...)
				cl.AddContent(d.Category, d.Name, d.Variant, data)
				if !bytes.Equal(data, d.Data) && viol == nil {
					viol = &hlib.Violation{Oracle: "caller-buffer-unchanged", Class: "input-modified:AddContent", Message: "AddContent modified the caller's byte slice for " + d.Key()}
				}
			}
			return instance{name, cl}
		}
		ident := make([]int, len(world))
		for i := range ident {
			ident[i] = i
		}
		insts := []instance{build(ident, nil, "canonical")}
		if ninst >= 2 {
			insts = append(insts, build(s.Perm(len(world), "insertion-perm"), nil, "permuted"))
		}
		if ninst >= 3 {
			var extra []v2kit.Doc
			for k := 0; k < 1+s.Draw(6, "n-unrelated"); k++ {
				extra = append(extra, unrelatedDoc(s, k))
			}
			insts = append(insts, build(s.Perm(len(world), "insertion-perm"), extra, fmt.Sprintf("permuted+%d-unrelated", len(extra))))
		}
		if !full && s.Draw(3, "instance-with-replaced-document") == 0 {
			// An instance on which one document first had ANOTHER text under the
			// same name, served some Match calls, and was then given its final
			// text: from here on its corpus is the same set of documents.
			k := s.Draw(len(world), "replaced-doc")
			other := world[s.Draw(len(world), "replaced-doc-old-text")].Data
			cl := classifier.NewClassifier(threshold)
			for i, d := range world {
				data := d.Data
				if i == k {
					data = other
				}
				cl.AddContent(d.Category, d.Name, d.Variant, append([]byte(nil), data...))
			}
			for w := 0; w < 1+s.Draw(3, "warm-up-calls"); w++ {
				cl.Match(append([]byte(nil), world[s.Draw(len(world), "warm-up-input")].Data...))
			}
			cl.AddContent(world[k].Category, world[k].Name, world[k].Variant, append([]byte(nil), world[k].Data...))
			insts = append(insts, instance{"document-replaced-after-matches", cl})
			out.Counters["instances_with_replaced_document"]++
		}
		if !full && s.Draw(4, "instance-from-directory") == 0 {
			// a separately built instance populated through LoadLicenses
			if dir, err := os.MkdirTemp("", "verif-c04-corpus-"); err == nil {
				okDir := true
				for _, d := range world {
					pth := filepath.Join(dir, d.Category, d.Name)
					if os.MkdirAll(pth, 0o755) != nil || os.WriteFile(filepath.Join(pth, d.Variant), d.Data, 0o644) != nil {
						okDir = false
					}
				}
				cl := classifier.NewClassifier(threshold)
				if okDir && cl.LoadLicenses(dir) == nil {
					insts = append(insts, instance{"loaded-from-directory", cl})
					out.Counters["instances_loaded_from_directory"]++
				}
				os.RemoveAll(dir)
			}
		}
		tr("world: %d documents, threshold %v, %d instances, shuffle_maps=%v", len(world), threshold, len(insts), cfg.ShuffleMaps)

		// ---- inputs --------------------------------------------------------
		pool := &v2kit.Pool{Scenarios: scs, Docs: world, Threshold: threshold, Partials: true}
		nin := 1 + s.Draw(4, "n-inputs")
		inputs := make([]v2kit.Input, nin)
		for i := range inputs {
			inputs[i] = pool.Gen(s, []int{0, 0, 4000, 20000}[s.Draw(4, "maxlen")])
			req.Inputs = append(req.Inputs, inputs[i].Data)
		}
		ref := map[int]*observation{}
		// results of a separately built instance in a separate, fresh process
		var fresh []classifier.Results
		var plain []classifier.Results
		if c.Args["noref"] == "" {
			rb, _ := json.Marshal(req)
			query := func(bin string) []classifier.Results {
				ans, err := hlib.CallReferenceBin(bin, c.Args, c.Tier, rb)
				if err != nil {
					panic("reference process failed: " + err.Error())
				}
				var r []classifier.Results
				if err := json.Unmarshal(ans, &r); err != nil || len(r) != nin {
					panic(fmt.Sprintf("reference process answer unusable: %v", err))
				}
				return r
			}
			fresh = query(os.Args[0])
			for i := range fresh {
				ref[i] = &observation{fresh[i], fmt.Sprintf("Match(input %d %q) on a canonically built instance in a fresh process (no history, no tracing)", i, inputs[i].Desc)}
			}
			out.Counters["reference_process_results"] += int64(nin)
			// A third process runs the UNINSTRUMENTED library (real runtime, the
			// runtime's own random map order). It is compared with the reference
			// at the end of the run; what it shows is not a function of the choice
			// vector, hence "flaky".
			if pb := c.Args["plainbin"]; pb != "" {
				if _, err := os.Stat(pb); err == nil {
					plain = query(pb)
					out.Counters["uninstrumented_process_results"] += int64(nin)
				}
			}
		}

		// ---- history -------------------------------------------------------
		type retainedOut struct {
			live, copy []byte
			from       string
		}
		var retained []retainedOut
		extraN := 0
		cur := 0
		traceOn := "off"
		nops := 5 + s.Draw(36, "n-ops")
		var hist []string
		for op := 0; op < nops && viol == nil; op++ {
			kind := s.Pick([]int{8, 4, 3, 2, 3, 1, 1, 1, 1}, "op")
			switch kind {
			case 0, 1: // Match / MatchFrom
				ii := s.Draw(nin, "input")
				in := inputs[ii]
				data := append([]byte(nil), in.Data...)
				var res classifier.Results
				api := "Match"
				if kind == 0 {
					res = insts[cur].c.Match(data)
				} else {
					api = "MatchFrom"
					rd := v2kit.NewSimReader(data, s, s.Pick([]int{3, 1, 1}, "reader-style"), nil)
					var err error
					res, err = insts[cur].c.MatchFrom(rd)
					if err != nil {
						viol = &hlib.Violation{Oracle: "no-error", Class: "error-without-fault", Message: fmt.Sprintf("MatchFrom returned %v from a reader that never fails", err)}
						break
					}
				}
				out.Counters["op_"+api]++
				if !bytes.Equal(data, in.Data) {
					viol = &hlib.Violation{Oracle: "caller-buffer-unchanged", Class: "input-modified:" + api, Message: api + " modified the caller's byte slice (input " + in.Desc + ")"}
					break
				}
				desc := fmt.Sprintf("op %d: %s(input %d %q) on instance %s, trace %s, after [%s]", op, api, ii, in.Desc, insts[cur].name, traceOn, strings.Join(lastN(hist, 4), "; "))
				hist = append(hist, fmt.Sprintf("%s(%d)@%s", api, ii, insts[cur].name))
				tr("%s -> %s", desc, v2kit.Pretty(res))
				if len(res.Matches) > 0 {
					out.Counters["probe_observation_with_matches"]++
				}
				if hasTie(res) {
					out.Counters["probe_tie_among_results"]++
				}
				if r0, ok := ref[ii]; !ok {
					ref[ii] = &observation{res, desc}
					distinctObs++
				} else {
					repeated++
					if d := v2kit.FirstDiff(r0.res, res); d != "" {
						what := d
						if v2kit.SameMultiset(r0.res, res) {
							what = "order-only"
						}
						viol = &hlib.Violation{Oracle: "same-input-same-results", Class: "nondeterministic-results:" + what,
							Message: fmt.Sprintf("the same bytes gave different Results (first difference: %s)\n  first:  %s\n          %s\n  later:  %s\n          %s", d, r0.desc, v2kit.Pretty(r0.res), desc, v2kit.Pretty(res))}
					}
				}
			case 2: // Normalize (adds words to the shared dictionary)
				var data []byte
				if s.Draw(2, "normalize-what") == 0 {
					data = append([]byte(nil), inputs[s.Draw(nin, "input")].Data...)
				} else {
					data = []byte(v2kit.OOV(s, 5+s.Draw(40, "normalize-oov")) + " extraordinary novel vocabulary " + fmt.Sprint(op))
				}
				before := append([]byte(nil), data...)
				nres := insts[cur].c.Normalize(data)
				// the caller keeps what Normalize returned: later calls must not change it
				retained = append(retained, retainedOut{nres, append([]byte(nil), nres...), fmt.Sprintf("op %d Normalize(%dB)@%s", op, len(data), insts[cur].name)})
				out.Counters["op_Normalize"]++
				hist = append(hist, fmt.Sprintf("Normalize(%dB)@%s", len(data), insts[cur].name))
				tr("op %d: Normalize(%d bytes) on %s", op, len(data), insts[cur].name)
				if !bytes.Equal(before, data) {
					viol = &hlib.Violation{Oracle: "caller-buffer-unchanged", Class: "input-modified:Normalize", Message: "Normalize modified the caller's byte slice"}
				}
			case 3: // trace configuration
				if s.Draw(3, "trace-nil") == 0 {
					insts[cur].c.SetTraceConfiguration(nil)
					traceOn = "nil"
				} else {
					ph := []string{"*", "searchset", "score", "tokenize", "frequency", "tokenize,score", "searchset,score", ""}[s.Draw(8, "trace-phases")]
					li := []string{"*", "*", "License/*", "License/MIT*", "License/Apache*", "Header/*", "License/BSD-3-Clause/license.txt", ""}[s.Draw(8, "trace-licenses")]
					if len(world) > 100 && (li == "*" || li == "License/*") {
						// dumping every intermediate structure for hundreds of documents costs tens of seconds per call
						li = "License/GPL*"
					}
					n := 0
					insts[cur].c.SetTraceConfiguration(&classifier.TraceConfiguration{TracePhases: ph, TraceLicenses: li, Tracer: func(string, ...interface{}) { n++ }})
					traceOn = fmt.Sprintf("phases=%q licenses=%q", ph, li)
				}
				out.Counters["op_SetTraceConfiguration"]++
				hist = append(hist, "Trace("+traceOn+")@"+insts[cur].name)
				tr("op %d: SetTraceConfiguration(%s) on %s", op, traceOn, insts[cur].name)
			case 5: // a call that fails: MatchFrom over a reader that breaks
				in := inputs[s.Draw(nin, "input")]
				e, kname := v2kit.MakeErr(s.Draw(v2kit.ErrKinds, "fault-kind"))
				rd := v2kit.NewSimReader(append([]byte(nil), in.Data...), s, 0, &v2kit.Fault{At: s.Draw(len(in.Data)+1, "fault-at"), Err: e, WithData: s.Draw(2, "with-data") == 1})
				_, err := insts[cur].c.MatchFrom(rd)
				out.Counters["op_MatchFrom_failing_reader"]++
				hist = append(hist, fmt.Sprintf("MatchFrom(failing:%s)@%s", kname, insts[cur].name))
				tr("op %d: MatchFrom over a reader failing with %s on %s -> err=%v", op, kname, insts[cur].name, err)
			case 6: // an unrelated instance with another threshold is built and used in between
				other := []float64{0.5, 0.7, 0.9, 1.0}[s.Draw(4, "decoy-threshold")]
				dc := classifier.NewClassifier(other)
				for k := 0; k < 1+s.Draw(3, "decoy-docs"); k++ {
					d := world[s.Draw(len(world), "decoy-doc")]
					dc.AddContent(d.Category, d.Name, d.Variant, append([]byte(nil), d.Data...))
				}
				dc.Match(append([]byte(nil), inputs[s.Draw(nin, "input")].Data...))
				out.Counters["op_decoy_instance"]++
				hist = append(hist, fmt.Sprintf("decoy-instance(threshold %v)", other))
				tr("op %d: built and used an unrelated instance with threshold %v", op, other)
			case 7: // the corpus grows by an unrelated document between calls
				extraN++
				d := unrelatedDoc(s, 100+extraN)
				insts[cur].c.AddContent(d.Category, d.Name, d.Variant, append([]byte(nil), d.Data...))
				out.Counters["op_AddContent_unrelated"]++
				hist = append(hist, "AddContent(unrelated)@"+insts[cur].name)
				tr("op %d: AddContent of an unrelated document on %s", op, insts[cur].name)
			case 8: // a document that is already in the corpus is added again, unchanged
				d := world[s.Draw(len(world), "re-add")]
				insts[cur].c.AddContent(d.Category, d.Name, d.Variant, append([]byte(nil), d.Data...))
				out.Counters["op_AddContent_again"]++
				hist = append(hist, "AddContent(again:"+d.Key()+")@"+insts[cur].name)
				tr("op %d: AddContent of %s again on %s", op, d.Key(), insts[cur].name)
			case 4: // switch instance
				cur = s.Draw(len(insts), "instance")
				traceOn = "?"
				out.Counters["op_switch_instance"]++
				tr("op %d: switch to instance %s", op, insts[cur].name)
			}
		}
		for i := range plain {
			if viol == nil && fresh != nil {
				if d := v2kit.FirstDiff(fresh[i], plain[i]); d != "" {
					viol = &hlib.Violation{Oracle: "separate-processes-agree", Class: "differs-in-uninstrumented-process", Flaky: true,
						Message: fmt.Sprintf("two fresh processes that build the same corpus and call Match once on the same bytes (input %d %q) disagree (first difference: %s); one runs the instrumented library with sorted map order, the other the unmodified library with the runtime's own map order\n  instrumented:   %s\n  uninstrumented: %s", i, inputs[i].Desc, d, v2kit.Pretty(fresh[i]), v2kit.Pretty(plain[i]))}
				}
			}
		}
		for _, r := range retained {
			if viol == nil && !bytes.Equal(r.live, r.copy) {
				viol = &hlib.Violation{Oracle: "caller-buffer-unchanged", Class: "normalize-result-modified-later", Message: "the byte slice returned by " + r.from + " was modified by a later call (history: " + strings.Join(hist, "; ") + ")"}
			}
		}
		out.Counters["retained_normalize_outputs_checked"] += int64(len(retained))
		sample = map[string]any{"corpus_docs": len(world), "threshold": threshold, "instances": len(insts), "shuffle_maps": cfg.ShuffleMaps, "inputs": descs(inputs), "history": hist}
	})
	for _, p := range rep.Panics {
		if viol == nil {
			viol = &hlib.Violation{Oracle: "no-panic", Class: "panic:" + firstLine(p.Value), Message: "panic: " + p.Value + "\n" + p.Stack}
		}
	}
	out.Violation = viol
	out.Steps = rep.Steps
	out.Counters["map_ranges_shuffled"] += rep.Counters["map_ranges_shuffled"]
	out.Counters["observations_repeated"] += int64(repeated)
	out.Nontrivial = repeated >= 1
	out.Hash = hlib.Hash64(fmt.Sprint(s.Recorded()))
	out.Sample = sample
	out.Trace = trace
	return out
}

func hasTie(r classifier.Results) bool {
	for i := 1; i < len(r.Matches); i++ {
		a, b := r.Matches[i-1], r.Matches[i]
		if a.Confidence == b.Confidence && a.StartTokenIndex == b.StartTokenIndex && a.EndTokenIndex == b.EndTokenIndex {
			return true
		}
	}
	return false
}

func lastN(l []string, n int) []string {
	if len(l) > n {
		return l[len(l)-n:]
	}
	return l
}

func descs(in []v2kit.Input) []string {
	var out []string
	for _, i := range in {
		out = append(out, fmt.Sprintf("%s (%d bytes)", i.Desc, len(i.Data)))
	}
	return out
}

func firstLine(s string) string {
	if i := strings.IndexByte(s, '\n'); i >= 0 {
		s = s[:i]
	}
	if len(s) > 80 {
		s = s[:80]
	}
	return s
}

func main() {
	hlib.Main(&hlib.Harness{
		Property:  "C04",
		Setup:     setup,
		Run:       run,
		Isolate:   true,
		Reference: refServe,
		Info: func() map[string]any {
			return map[string]any{
				"real_code":   []string{"v2 classifier package, re-compiled from the tree under test after source instrumentation (map-range seam only)", "go-diff, go-spew: unmodified"},
				"simulated":   []string{"iteration order of every map ranged over in package classifier (seeded permutation per range statement execution)", "io.Reader for MatchFrom operations"},
				"unmodelled":  simrt.Unmodelled(),
				"processes":   "every run executes in a fresh child process; the reference results come from a second fresh process, that builds the corpus canonically and only calls Match; a third fresh process does the same with the UNINSTRUMENTED library (the runtime's own map order) and must agree with it",
				"model":       "reference = Results of the fresh reference process (else the first Results observed for (world, input bytes); every later observation on any instance, at any point of the history, under any map permutation and trace configuration must be bit-identical)",
				"not_checked": "that results are right (C01-C03), trace text",
			}
		},
	})
}
