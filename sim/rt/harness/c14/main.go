// Command c14 is the simulation harness for property C14: concurrent use of
// the v1 classifiers.
//
// The v1 packages (stringclassifier and its internals, searchset, tokenizer,
// the root licenseclassifier package, serializer) are re-compiled from an
// instrumented copy: every go statement, mutex, RWMutex, WaitGroup and
// channel operation goes through the simulated runtime, and field, pointer,
// global, captured-variable and map accesses report to the happens-before
// race checker. Caller tasks and the goroutines the library starts itself are
// tasks of one simulation under one seeded scheduler.
package main

import (
	"bytes"
	"fmt"
	"io"
	"log"
	"math"
	"os"
	"path/filepath"
	"sort"
	"strings"
	"time"

	"github.com/anishathalye/porcupine"
	"github.com/google/licenseclassifier"
	"github.com/google/licenseclassifier/serializer"
	"github.com/google/licenseclassifier/stringclassifier"

	"verifsim/hlib"
	"verifsim/simrt"
	"verifsim/simrt/choice"
)

type licText struct {
	file string // file name in the licenses directory
	text string
}

var smallLicenses []licText

func setup(args map[string]string, tier string) error {
	log.SetOutput(io.Discard)
	repo := args["repo"]
	if repo == "" {
		return fmt.Errorf("missing -arg repo=<tree under test>")
	}
	dir := filepath.Join(repo, "licenses")
	ents, err := os.ReadDir(dir)
	if err != nil {
		return err
	}
	for _, e := range ents {
		if !strings.HasSuffix(e.Name(), ".txt") {
			continue
		}
		b, err := os.ReadFile(filepath.Join(dir, e.Name()))
		if err != nil {
			return err
		}
		if len(b) >= 250 && len(b) <= 1700 {
			smallLicenses = append(smallLicenses, licText{e.Name(), string(b)})
		}
	}
	sort.Slice(smallLicenses, func(i, j int) bool { return smallLicenses[i].file < smallLicenses[j].file })
	if len(smallLicenses) < 12 {
		return fmt.Errorf("too few small license texts under %s", dir)
	}
	return nil
}

var vocab = strings.Fields("permission is hereby granted free of charge to any person obtaining a copy this software and associated documentation files the rights use modify merge publish distribute sublicense sell copies without restriction including limitation warranty kind express implied liability claim damages redistribution source binary forms retain above notice conditions disclaimer license terms version work code original")

func synth(s *choice.Stream, n int) string {
	ws := make([]string, n)
	for i := range ws {
		ws[i] = vocab[s.Draw(len(vocab), "synth-word")]
	}
	return strings.Join(ws, " ")
}

func editWords(s *choice.Stream, text string, n int) string {
	ws := strings.Fields(text)
	for e := 0; e < n && len(ws) > 1; e++ {
		i := s.Draw(len(ws), "edit-pos")
		switch s.Draw(3, "edit-kind") {
		case 0:
			ws = append(ws[:i], ws[i+1:]...)
		case 1:
			ws[i] = vocab[s.Draw(len(vocab), "edit-word")]
		case 2:
			ws = append(ws[:i], append([]string{vocab[s.Draw(len(vocab), "edit-word")]}, ws[i:]...)...)
		}
	}
	return strings.Join(ws, " ")
}

// ---------------------------------------------------------------------------
// the system under test, behind one small interface for both population modes

type target interface {
	multipleMatch(q string) string           // digest of the result
	nearestMatch(q string) (string, float64) // name, confidence
	addValue(k, v string) error
}

type lazyTarget struct{ c *stringclassifier.Classifier }

func digestMatches(ms stringclassifier.Matches) string {
	var sb strings.Builder
	fmt.Fprintf(&sb, "n=%d", len(ms))
	for _, m := range ms {
		fmt.Fprintf(&sb, "|%s %016x %d+%d", m.Name, math.Float64bits(m.Confidence), m.Offset, m.Extent)
	}
	return sb.String()
}

func (t lazyTarget) multipleMatch(q string) string { return digestMatches(t.c.MultipleMatch(q)) }
func (t lazyTarget) nearestMatch(q string) (string, float64) {
	m := t.c.NearestMatch(q)
	if m == nil {
		return "<nil>", 0
	}
	return m.Name, m.Confidence
}
func (t lazyTarget) addValue(k, v string) error { return t.c.AddValue(k, v) }

type licTarget struct {
	l       *licenseclassifier.License
	headers bool
}

func (t licTarget) multipleMatch(q string) string {
	return digestMatches(t.l.MultipleMatch(q, t.headers))
}
func (t licTarget) nearestMatch(q string) (string, float64) {
	m := t.l.NearestMatch(q)
	if m == nil {
		return "<nil>", 0
	}
	return m.Name, m.Confidence
}
func (t licTarget) addValue(k, v string) error { panic("License has no AddValue") }

func newLazy(threshold float64, vals map[string]string, keys []string) *stringclassifier.Classifier {
	c := stringclassifier.New(threshold, stringclassifier.FlattenWhitespace, strings.ToLower)
	for _, k := range keys {
		if err := c.AddValue(k, vals[k]); err != nil {
			panic(err)
		}
	}
	return c
}

func archive(files []string) []byte {
	var buf bytes.Buffer
	if err := serializer.ArchiveLicenses(files, &buf); err != nil {
		panic(err)
	}
	return buf.Bytes()
}

func newLicense(threshold float64, arch []byte) *licenseclassifier.License {
	l, err := licenseclassifier.New(threshold, licenseclassifier.ArchiveBytes(arch))
	if err != nil {
		panic(err)
	}
	return l
}

// sequential runs fn in a fresh simulation with the trivial schedule (every
// draw 0: the running task keeps running until it blocks), so that reference
// values are computed deterministically and without real threads.
func sequential(fn func()) *simrt.Report {
	sim := simrt.New(choice.Replay(nil), simrt.Config{Strategy: simrt.StratSticky, MaxSteps: 1 << 40})
	return sim.Run(fn)
}

// ---------------------------------------------------------------------------

type opKind int

const (
	opMultiple opKind = iota
	opNearest
	opAdd
)

type op struct {
	kind opKind
	q    int    // query index
	key  string // AddValue
	bit  int    // AddValue: index of the new key (-1: key exists from the start)
	// results
	digest string
	name   string
	conf   float64
	err    bool
	call   int64
	ret    int64
	task   int
}

type nearestRef struct {
	conf  float64
	names map[string]bool
}

func run(c *hlib.Ctx) *hlib.Run {
	r := runOnce(c, c.S, false)
	if r.Violation != nil && strings.HasPrefix(r.Violation.Class, "not-linearizable") {
		// Was it the clock? Re-execute the identical choice vector with the
		// virtual clock frozen (stall faults are still drawn and yields still
		// counted, so the schedule is the same); if the history is then
		// explained by the sequential model the difference is attributed to
		// go-diff's wall-clock deadline.
		r2 := runOnce(c, choice.Replay(c.S.Recorded()), true)
		if r2.Violation == nil {
			r.Violation.Oracle = "linearizable-vs-sequential(clock)"
			r.Violation.Class = "result-depends-on-wall-clock"
			r.Violation.Message = fmt.Sprintf("results differ from the sequential ones only because virtual time passes (%.3fs in this run, %d stall faults): go-diff's DiffTimeout = 1s is live in the package-level dmp; with the same schedule and a frozen clock the history is linearizable\n", float64(r.VirtualNS)/1e9, r.Counters["fault_clock_stall"]) + r.Violation.Message
		}
	}
	return r
}

func runOnce(c *hlib.Ctx, s *choice.Stream, freezeClock bool) *hlib.Run {
	out := &hlib.Run{Counters: map[string]int64{}}
	var trace []string
	tr := func(f string, a ...any) {
		if c.Trace {
			trace = append(trace, fmt.Sprintf(f, a...))
		}
	}

	// ---- workload ----------------------------------------------------------
	// crowd runs: many callers with one call each on values that resemble each
	// other (resource limits shared by all calls of a process only bite when
	// enough goroutines with real work are in flight)
	crowd := s.Draw(12, "crowd") == 0
	precomputed := s.Draw(3, "mode-precomputed") == 0 && !crowd
	threshold := []float64{0.5, 0.8, 0.8, 0.9}[s.Draw(4, "threshold")]
	vals := map[string]string{}
	var baseKeys []string
	var files []string
	if precomputed {
		n := 2 + s.Draw(4, "n-licenses")
		perm := s.Perm(len(smallLicenses), "license-pick")
		for _, i := range perm[:n] {
			lt := smallLicenses[i]
			files = append(files, lt.file)
			k := strings.TrimSuffix(lt.file, ".txt")
			vals[k] = lt.text
			baseKeys = append(baseKeys, k)
		}
		sort.Strings(files)
		sort.Strings(baseKeys)
	} else {
		n := 1 + s.Draw(6, "n-values")
		if crowd {
			n = 4 + s.Draw(4, "n-values-crowd")
		}
		for i := 0; i < n; i++ {
			k := fmt.Sprintf("val%d", i)
			if crowd && i > 0 {
				vals[k] = editWords(s, vals[baseKeys[0]], 1+s.Draw(3, "derive-edits"))
			} else if s.Draw(3, "value-real") == 0 {
				lt := smallLicenses[s.Draw(len(smallLicenses), "license")]
				vals[k] = lt.text
			} else if i > 0 && s.Draw(4, "value-derived") == 0 {
				vals[k] = editWords(s, vals[baseKeys[s.Draw(len(baseKeys), "derive-from")]], 1+s.Draw(4, "derive-edits"))
			} else {
				vals[k] = synth(s, 5+s.Draw(56, "synth-len"))
			}
			baseKeys = append(baseKeys, k)
		}
	}
	// new keys that AddValue operations may add during the run
	var newKeys []string
	if !precomputed {
		for i := 0; i < s.Draw(4, "n-new-keys"); i++ {
			k := fmt.Sprintf("new%d", i)
			if s.Draw(3, "new-dup-text") == 0 {
				vals[k] = vals[baseKeys[s.Draw(len(baseKeys), "dup-of")]] // same text under another name: ties
			} else {
				vals[k] = synth(s, 5+s.Draw(40, "synth-len"))
			}
			newKeys = append(newKeys, k)
		}
	}
	allKeys := append(append([]string(nil), baseKeys...), newKeys...)
	// queries
	nq := 1 + s.Draw(4, "n-queries")
	queries := make([]string, nq)
	for i := range queries {
		k := allKeys[s.Draw(len(allKeys), "query-from")]
		qk := s.Draw(6, "query-kind")
		if crowd {
			qk = s.Draw(2, "query-kind-crowd")
		}
		switch qk {
		case 0:
			queries[i] = vals[k]
		case 1:
			queries[i] = editWords(s, vals[k], 1+s.Draw(5, "query-edits"))
		case 2:
			queries[i] = synth(s, s.Draw(12, "pre")) + " " + vals[k] + " " + synth(s, s.Draw(12, "post"))
		case 3:
			k2 := allKeys[s.Draw(len(allKeys), "query-from2")]
			queries[i] = vals[k] + "\n" + synth(s, 3) + "\n" + vals[k2]
		case 4:
			queries[i] = synth(s, 3+s.Draw(40, "rand-len"))
		case 5:
			queries[i] = editWords(s, vals[k], 1) + " software license " + synth(s, 2)
		}
	}
	headers := s.Draw(2, "include-headers") == 0

	// tasks and their operations
	ntasks := 2 + s.Draw(5, "n-tasks")
	maxOps := 24
	if crowd {
		ntasks = 24 + s.Draw(80, "n-tasks-crowd")
		maxOps = 110
	}
	plan := make([][]*op, ntasks)
	nops := 0
	for t := range plan {
		opsHere := 1 + s.Draw(4, "ops-per-task")
		if crowd {
			opsHere = 1
		}
		for j := 0; j < opsHere && nops < maxOps; j++ {
			o := &op{task: t}
			k := s.Pick([]int{5, 3, 3}, "op-kind")
			if crowd && k == 1 && s.Draw(3, "crowd-mostly-multiple") != 0 {
				k = 0
			}
			if crowd && k == 2 {
				k = 0 // no AddValue in crowd runs: the linearizability check of a 100-operation history must stay trivial (wall-clock timeouts would make the verdict depend on machine load)
			}
			if k == 2 && (precomputed || len(newKeys) == 0) {
				k = s.Draw(2, "op-kind2")
			}
			switch k {
			case 0:
				o.kind, o.q = opMultiple, s.Draw(nq, "q")
			case 1:
				o.kind, o.q = opNearest, s.Draw(nq, "q")
			case 2:
				o.kind = opAdd
				if s.Draw(6, "add-existing") == 0 {
					o.key, o.bit = baseKeys[s.Draw(len(baseKeys), "existing-key")], -1
				} else {
					o.bit = s.Draw(len(newKeys), "new-key")
					o.key = newKeys[o.bit]
				}
			}
			plan[t] = append(plan[t], o)
			nops++
		}
	}

	// ---- reference tables (sequential, deterministic) ----------------------
	var arch []byte
	mkTarget := func(keys []string) target {
		if precomputed {
			return licTarget{newLicense(threshold, arch), headers}
		}
		return lazyTarget{newLazy(threshold, vals, keys)}
	}
	nstates := 1 << len(newKeys)
	M := make([][]string, nstates)      // state -> query -> digest
	single := map[string][]nearestRef{} // key -> query -> (conf,name) when only that key is registered
	refFail := ""
	rep0 := sequential(func() {
		if precomputed {
			arch = archive(files)
		}
		for st := 0; st < nstates; st++ {
			keys := append([]string(nil), baseKeys...)
			for b, k := range newKeys {
				if st&(1<<b) != 0 {
					keys = append(keys, k)
				}
			}
			tg := mkTarget(keys)
			M[st] = make([]string, nq)
			for qi, q := range queries {
				M[st][qi] = tg.multipleMatch(q)
				// sequential calls must agree with themselves
				if again := tg.multipleMatch(q); again != M[st][qi] {
					refFail = fmt.Sprintf("sequential MultipleMatch is not repeatable for query %d in state %b: %s vs %s", qi, st, M[st][qi], again)
				}
			}
		}
		for _, k := range allKeys {
			var tg target
			if precomputed {
				tg = licTarget{newLicense(threshold, archive([]string{k + ".txt"})), headers}
			} else {
				tg = lazyTarget{newLazy(threshold, vals, []string{k})}
			}
			refs := make([]nearestRef, nq)
			for qi, q := range queries {
				n, cf := tg.nearestMatch(q)
				refs[qi] = nearestRef{cf, map[string]bool{n: true}}
			}
			single[k] = refs
		}
	})
	if len(rep0.Panics) > 0 || rep0.Deadlock != "" {
		// The calls of this workload do not even complete when run alone (for
		// example a slice-bounds panic in findMatches on some inputs). What a
		// single call does is outside this property (C13's business); the
		// workload is rejected and counted.
		out.Counters["workload_rejected_sequential_call_fails"]++
		if len(rep0.Panics) > 0 {
			out.Counters["workload_rejected_sequential_panic"]++
		}
		return out
	}
	if refFail != "" {
		out.Violation = &hlib.Violation{Oracle: "sequential-reference", Class: "sequential-not-repeatable", Message: refFail}
		return out
	}
	nearestOf := func(st int, qi int) nearestRef {
		keys := append([]string(nil), baseKeys...)
		for b, k := range newKeys {
			if st&(1<<b) != 0 {
				keys = append(keys, k)
			}
		}
		best := nearestRef{conf: -1, names: map[string]bool{}}
		for _, k := range keys {
			r := single[k][qi]
			for n := range r.names {
				if n == "" || n == "<nil>" {
					continue
				}
				if r.conf > best.conf {
					best = nearestRef{r.conf, map[string]bool{n: true}}
				} else if r.conf == best.conf {
					best.names[n] = true
				}
			}
		}
		if best.conf < 0 {
			// nothing matched: take the single-key outcome verbatim (all equal: empty match or nil)
			r := single[keys[0]][qi]
			return r
		}
		return best
	}

	// ---- concurrent phase ----------------------------------------------------
	cfg := simrt.DrawConfig(s)
	cfg.Race = true
	cfg.MaxSteps = 2000000
	cfg.Trace = c.Trace
	cfg.ShuffleMaps = true
	if s.Draw(4, "stalls") == 0 {
		cfg.StallEvery = []int{100, 1000, 10000}[s.Draw(3, "stall-rate")]
	}
	cfg.FreezeClock = freezeClock
	sim := simrt.New(s, cfg)
	var sut target
	rep := sim.Run(func() {
		sut = mkTarget(baseKeys)
		var ts []*simrt.Task
		for t := range plan {
			t := t
			ts = append(ts, sim.Spawn(fmt.Sprintf("caller%d", t), func() {
				for _, o := range plan[t] {
					o.call = sim.Step()
					switch o.kind {
					case opMultiple:
						o.digest = sut.multipleMatch(queries[o.q])
					case opNearest:
						o.name, o.conf = sut.nearestMatch(queries[o.q])
					case opAdd:
						o.err = sut.addValue(o.key, vals[o.key]) != nil
					}
					simrt.Point("op returned")
					o.ret = sim.Step()
				}
			}))
		}
		sim.WaitTasks(ts)
	})
	out.Steps = rep.Steps
	out.VirtualNS = rep.VirtualNS
	out.Counters["tasks"] += int64(rep.Tasks)
	out.Counters["context_switches"] += rep.Switches
	out.Counters["yields_passed"] += rep.YieldsPassed
	for k, v := range rep.Counters {
		out.Counters[k] += v
	}
	mode := "lazy"
	if precomputed {
		mode = "precomputed"
	}
	out.Counters["runs_mode_"+mode]++
	if crowd {
		out.Counters["runs_crowd"]++
	}
	if rep.Tasks >= 64 {
		out.Counters["probe_64_or_more_tasks"]++
	}
	for _, t := range plan {
		for _, o := range t {
			out.Counters[[]string{"op_MultipleMatch", "op_NearestMatch", "op_AddValue"}[o.kind]]++
		}
	}
	out.Nontrivial = rep.Tasks >= 3 && rep.Switches >= 2
	out.Hash = rep.SchedHash ^ hlib.Hash64(fmt.Sprint(queries), fmt.Sprint(vals))
	out.Sample = map[string]any{"mode": mode, "threshold": threshold, "known_values": len(baseKeys), "new_keys": len(newKeys), "queries": nq, "caller_tasks": ntasks,
		"operations": describePlan(plan), "tasks_total": rep.Tasks, "scheduling_points": rep.Steps, "context_switches": rep.Switches, "scheduler": cfg.String()}
	if c.Trace {
		trace = append(trace, fmt.Sprintf("mode=%s threshold=%v base=%v new=%v scheduler: %s", mode, threshold, baseKeys, newKeys, cfg.String()))
		trace = append(trace, rep.Trace...)
	}
	out.Trace = trace
	_ = tr

	// ---- oracles ---------------------------------------------------------------
	if len(rep.Panics) > 0 {
		p := rep.Panics[0]
		out.Violation = &hlib.Violation{Oracle: "no-panic", Class: "panic:" + firstLine(p.Value), Message: fmt.Sprintf("task %d (%s) panicked: %s\n%s", p.Task, p.Name, p.Value, trimStack(p.Stack))}
		return out
	}
	if rep.Deadlock != "" {
		out.Violation = &hlib.Violation{Oracle: "no-deadlock", Class: "deadlock:" + deadlockClass(rep.Deadlock), Message: "deadlock: " + rep.Deadlock}
		return out
	}
	if rep.StepBound {
		out.Counters["inconclusive_step_bound"]++
		return out
	}
	if len(rep.Races) > 0 {
		r := rep.Races[0]
		out.Counters["races_reported"] += int64(len(rep.Races))
		out.Violation = &hlib.Violation{Oracle: "race-free", Class: "race:" + r.Class(), Message: "data race: " + r.String()}
		return out
	}
	if len(rep.Leaked) > 0 {
		out.Violation = &hlib.Violation{Oracle: "no-leak", Class: "goroutine-leak", Message: "library goroutines still blocked after all calls returned: " + strings.Join(rep.Leaked, "; ")}
		return out
	}
	// linearizability against the reference model
	var ops []porcupine.Operation
	for t := range plan {
		for _, o := range plan[t] {
			ops = append(ops, porcupine.Operation{ClientId: t, Input: o, Call: o.call, Output: o, Return: o.ret})
		}
	}
	model := porcupine.Model{
		Init: func() interface{} { return 0 },
		Step: func(state, input, output interface{}) (bool, interface{}) {
			st := state.(int)
			o := input.(*op)
			switch o.kind {
			case opAdd:
				if o.bit < 0 || st&(1<<o.bit) != 0 {
					return o.err, st
				}
				return !o.err, st | 1<<o.bit
			case opMultiple:
				return o.digest == M[st][o.q], st
			default:
				r := nearestOf(st, o.q)
				return o.conf == r.conf && r.names[o.name], st
			}
		},
		Equal: func(a, b interface{}) bool { return a.(int) == b.(int) },
	}
	res := porcupine.CheckOperationsTimeout(model, ops, 30*time.Second)
	switch res {
	case porcupine.Ok:
		out.Counters["histories_linearizable"]++
	case porcupine.Unknown:
		out.Counters["histories_inconclusive_timeout"]++
	case porcupine.Illegal:
		// describe the first operation that no state explains, for the message
		msg := "history is not linearizable against the sequential model:\n"
		for t := range plan {
			for _, o := range plan[t] {
				msg += "  " + describeOp(o, queries, M, nearestOf, nstates) + "\n"
			}
		}
		out.Violation = &hlib.Violation{Oracle: "linearizable-vs-sequential", Class: "not-linearizable:" + illegalClass(plan, M, nearestOf, nstates), Message: msg}
	}
	return out
}

func illegalClass(plan [][]*op, M [][]string, nearestOf func(int, int) nearestRef, nstates int) string {
	// which kind of operation returned something no state explains?
	bad := map[string]bool{}
	for _, t := range plan {
		for _, o := range t {
			ok := false
			for st := 0; st < nstates && !ok; st++ {
				switch o.kind {
				case opMultiple:
					ok = o.digest == M[st][o.q]
				case opNearest:
					r := nearestOf(st, o.q)
					ok = o.conf == r.conf && r.names[o.name]
				default:
					ok = true
				}
			}
			if !ok {
				bad[[]string{"MultipleMatch", "NearestMatch", "AddValue"}[o.kind]] = true
			}
		}
	}
	if len(bad) == 0 {
		return "ordering"
	}
	var ks []string
	for k := range bad {
		ks = append(ks, k)
	}
	sort.Strings(ks)
	return "result-of-" + strings.Join(ks, "+")
}

func describeOp(o *op, queries []string, M [][]string, nearestOf func(int, int) nearestRef, nstates int) string {
	switch o.kind {
	case opAdd:
		return fmt.Sprintf("task %d [%d,%d] AddValue(%s) -> error=%v", o.task, o.call, o.ret, o.key, o.err)
	case opMultiple:
		exp := map[string]bool{}
		for st := 0; st < nstates; st++ {
			exp[M[st][o.q]] = true
		}
		return fmt.Sprintf("task %d [%d,%d] MultipleMatch(q%d) -> %s   (sequential, by state: %v)", o.task, o.call, o.ret, o.q, o.digest, keysOf(exp))
	default:
		var exp []string
		for st := 0; st < nstates; st++ {
			r := nearestOf(st, o.q)
			exp = append(exp, fmt.Sprintf("%v@%v", keysOf(r.names), r.conf))
		}
		return fmt.Sprintf("task %d [%d,%d] NearestMatch(q%d) -> %s@%v   (sequential, by state: %v)", o.task, o.call, o.ret, o.q, o.name, o.conf, exp)
	}
}

func keysOf(m map[string]bool) []string {
	var ks []string
	for k := range m {
		ks = append(ks, k)
	}
	sort.Strings(ks)
	return ks
}

func describePlan(plan [][]*op) []string {
	var out []string
	for t, ops := range plan {
		var sb strings.Builder
		fmt.Fprintf(&sb, "task %d:", t)
		for _, o := range ops {
			switch o.kind {
			case opMultiple:
				fmt.Fprintf(&sb, " MultipleMatch(q%d)", o.q)
			case opNearest:
				fmt.Fprintf(&sb, " NearestMatch(q%d)", o.q)
			default:
				fmt.Fprintf(&sb, " AddValue(%s)", o.key)
			}
		}
		out = append(out, sb.String())
	}
	return out
}

func deadlockClass(d string) string {
	// distinct blocking sites only (the number of blocked tasks varies)
	seen := map[string]bool{}
	var sites []string
	for _, part := range strings.Split(d, "; ") {
		if i := strings.LastIndex(part, " at "); i >= 0 && !seen[part[i+4:]] {
			seen[part[i+4:]] = true
			sites = append(sites, part[i+4:])
		}
	}
	sort.Strings(sites)
	return strings.Join(sites, ",")
}

func firstLine(s string) string {
	if i := strings.IndexByte(s, '\n'); i >= 0 {
		s = s[:i]
	}
	if len(s) > 100 {
		s = s[:100]
	}
	return s
}

func trimStack(s string) string {
	lines := strings.Split(s, "\n")
	if len(lines) > 40 {
		lines = lines[:40]
	}
	return strings.Join(lines, "\n")
}

func main() {
	hlib.Main(&hlib.Harness{
		Property: "C14",
		Setup:    setup,
		Run:      run,
		// every run in a fresh process: package-level state of the library (for
		// instance a package-level channel used as a semaphore, whose tokens a
		// deadlocked run never returns) must not leak into the next run
		Isolate: true,
		Info: func() map[string]any {
			return map[string]any{
				"real_code":  []string{"stringclassifier, internal/pq, internal/sets, searchset, tokenizer, root licenseclassifier package, serializer: re-compiled from the tree under test after source instrumentation", "go-diff: instrumented for yields and the clock only", "regexp, gob, tar, gzip, container/heap, sort: real, uninstrumented"},
				"simulated":  []string{"goroutines (callers and the library's own fan-out), sync.Mutex, sync.RWMutex (writer preference), sync.WaitGroup, map iteration order, time.Now in go-diff (virtual clock with stall faults)"},
				"unmodelled": simrt.Unmodelled(),
				"oracles":    []string{"vector-clock happens-before race checker over instrumented accesses", "porcupine linearizability against sequential reference tables (per subset of added keys)", "no panic, no deadlock, no leaked goroutine, termination within the step bound"},
			}
		},
	})
}
