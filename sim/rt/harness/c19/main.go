// Command c19 is the simulation harness for property C19: the v2
// identify_license tool reports what the library finds.
//
// The tool's backend and results packages and its main package are
// re-compiled from an instrumented copy (goroutines, WaitGroup, mutex,
// channels, select, context deadline, log.Fatal/os.Exit/fmt.Printf). Two
// levels: the backend API under a seeded scheduler (most runs), and the whole
// main() in-process with captured stdout, JSON file and exit status.
package main

import (
	"bytes"
	"context"
	"encoding/json"
	"fmt"
	"io"
	"log"
	"math"
	"os"
	"os/exec"
	"path/filepath"
	"reflect"
	"sort"
	"strings"
	"time"
	"unicode/utf8"
	"unsafe"

	classifier "github.com/google/licenseclassifier/v2"
	idmain "github.com/google/licenseclassifier/v2/tools/identify_license"
	"github.com/google/licenseclassifier/v2/tools/identify_license/backend"
	"github.com/google/licenseclassifier/v2/tools/identify_license/results"

	"verifsim/hlib"
	"verifsim/simrt"
	"verifsim/simrt/choice"
	"verifsim/v2kit"
)

var (
	shared *classifier.Classifier
	docs   []v2kit.Doc
	scs    []v2kit.Scenario
	small  []int // indices of small documents (cheap to match)
)

func setup(args map[string]string, tier string) error {
	log.SetOutput(io.Discard)
	repo := args["repo"]
	if repo == "" {
		return fmt.Errorf("missing -arg repo=<tree under test>")
	}
	var err error
	docs, err = v2kit.LoadCorpusDir(filepath.Join(repo, "v2", "assets"))
	if err != nil {
		return err
	}
	scs, err = v2kit.LoadScenarios(filepath.Join(repo, "v2", "scenarios"))
	if err != nil {
		return err
	}
	for i, d := range docs {
		if len(d.Data) < 2500 {
			small = append(small, i)
		}
	}
	shared, err = v2kit.DefaultClassifier()
	return err
}

// newBackend makes a ClassifierBackend around the shared classifier (the
// exported constructor rebuilds the whole default corpus, 1.2 s).
func newBackend() *backend.ClassifierBackend {
	b := &backend.ClassifierBackend{}
	f := reflect.ValueOf(b).Elem().FieldByName("classifier")
	if !f.IsValid() {
		panic("ClassifierBackend has no field named classifier")
	}
	reflect.NewAt(f.Type(), unsafe.Pointer(f.UnsafeAddr())).Elem().Set(reflect.ValueOf(shared))
	return b
}

type fileSpec struct {
	name    string
	desc    string
	data    []byte
	missing bool
}

func longLine(s *choice.Stream, n int) string {
	var sb strings.Builder
	for sb.Len() < n {
		sb.WriteString(v2kit.OOVWords()[s.Draw(len(v2kit.OOVWords()), "long-word")])
		sb.WriteByte(' ')
	}
	return sb.String()
}

func genFile(s *choice.Stream, i int, allowMissing bool) fileSpec {
	f := fileSpec{name: fmt.Sprintf("f%02d.txt", i)}
	switch s.Draw(8, "file-name-style") {
	case 0:
		f.name = fmt.Sprintf("LICENSE%%20copy %d.txt", i) // a space and a per cent sign
	case 1:
		f.name = fmt.Sprintf("100%%_free-%d.md", i)
	}
	doc := func() v2kit.Doc { return docs[small[s.Draw(len(small), "doc")]] }
	kind := s.Pick([]int{5, 3, 3, 2, 1, 2, 2, 3, 1}, "file-kind")
	if allowMissing && s.Draw(3, "missing-file") == 0 {
		kind = 8
	}
	switch kind {
	case 0:
		d := doc()
		f.desc = "licensed:" + d.Key()
		f.data = []byte(v2kit.OOV(s, s.Draw(20, "pre")) + "\n" + string(d.Data) + "\n" + v2kit.OOV(s, s.Draw(20, "post")) + "\n")
	case 1:
		f.desc = "unlicensed"
		f.data = []byte(v2kit.OOV(s, 5+s.Draw(60, "n")))
	case 2:
		d1, d2 := doc(), doc()
		f.desc = "two:" + d1.Key() + "+" + d2.Key()
		f.data = []byte("Copyright (c) 2011 Somebody\n" + string(d1.Data) + "\n\n" + v2kit.OOV(s, 8) + "\n\nCopyright 2015 Other\n" + string(d2.Data))
	case 3:
		sc := scs[s.Draw(len(scs), "scenario")]
		if len(sc.Data) > 20000 {
			sc = scs[0]
		}
		f.desc = "scenario:" + sc.Name
		f.data = append([]byte(nil), sc.Data...)
	case 4:
		f.desc = "empty"
		f.data = nil
	case 5:
		d := doc()
		f.desc = "no-trailing-newline:" + d.Key()
		f.data = []byte(strings.TrimRight(string(d.Data), "\n"))
	case 6:
		d := doc()
		f.desc = "crlf:" + d.Key()
		f.data = []byte(strings.ReplaceAll("intro line\n"+string(d.Data)+"\ntrailer\n", "\n", "\r\n"))
	case 7:
		d := doc()
		n := []int{70000, 70000, 1 << 20}[s.Draw(3, "long-len")]
		switch s.Draw(3, "long-where") {
		case 0:
			f.desc = fmt.Sprintf("long-line(%d)-before:%s", n, d.Key())
			f.data = []byte(longLine(s, n) + "\n" + string(d.Data))
		case 1:
			lines := strings.Split(string(d.Data), "\n")
			mid := len(lines) / 2
			f.desc = fmt.Sprintf("long-line(%d)-inside:%s", n, d.Key())
			f.data = []byte(strings.Join(lines[:mid], "\n") + "\n" + longLine(s, n) + "\n" + strings.Join(lines[mid:], "\n"))
		default:
			f.desc = fmt.Sprintf("long-line(%d)-after:%s", n, d.Key())
			f.data = []byte(string(d.Data) + "\n" + longLine(s, n) + "\n")
		}
	case 8:
		if allowMissing {
			f.desc = "missing-file"
			f.missing = true
		} else {
			d := doc()
			f.desc = "licensed:" + d.Key()
			f.data = d.Data
		}
	}
	return f
}

type entry struct {
	MatchType, Name, Variant string
	Conf                     uint64
	Start, End               int
}

func (e entry) String() string {
	return fmt.Sprintf("%s/%s/%s conf=%v lines %d-%d", e.MatchType, e.Name, e.Variant, math.Float64frombits(e.Conf), e.Start, e.End)
}

func expected(data []byte, headers bool) []entry {
	var out []entry
	for _, m := range shared.Match(append([]byte(nil), data...)).Matches {
		if !headers && m.MatchType == "Header" {
			continue
		}
		out = append(out, entry{m.MatchType, m.Name, m.Variant, math.Float64bits(m.Confidence), m.StartLine, m.EndLine})
	}
	return out
}

func sortEntries(e []entry) {
	sort.Slice(e, func(i, j int) bool { return fmt.Sprint(e[i]) < fmt.Sprint(e[j]) })
}

func sameMultiset(a, b []entry) bool {
	if len(a) != len(b) {
		return false
	}
	a, b = append([]entry(nil), a...), append([]entry(nil), b...)
	sortEntries(a)
	sortEntries(b)
	for i := range a {
		if a[i] != b[i] {
			return false
		}
	}
	return true
}

func fileLines(data []byte) []string {
	s := string(data)
	if s == "" {
		return nil
	}
	lines := strings.Split(s, "\n")
	if strings.HasSuffix(s, "\n") {
		lines = lines[:len(lines)-1]
	}
	for i := range lines {
		lines[i] = strings.TrimSuffix(lines[i], "\r")
	}
	return lines
}

// checkText: Text split into lines equals lines start..end of the file (line
// terminators are not compared).
func checkText(text string, data []byte, start, end int, viaJSON bool) string {
	fl := fileLines(data)
	if viaJSON {
		// A JSON string cannot carry bytes that are not valid UTF-8: the
		// encoder writes U+FFFD for them. What can be demanded of Text read
		// back from the JSON file is the file's lines after that same coercion.
		for i, l := range fl {
			if !utf8.ValidString(l) {
				b, _ := json.Marshal(l)
				var back string
				json.Unmarshal(b, &back)
				fl[i] = back
			}
		}
	}
	if start < 1 || end > len(fl) || start > end {
		return fmt.Sprintf("lines %d-%d are not inside the file (%d lines)", start, end, len(fl))
	}
	want := fl[start-1 : end]
	got := fileLines([]byte(text))
	if len(got) != len(want) {
		return fmt.Sprintf("Text has %d lines, lines %d-%d of the file are %d lines", len(got), start, end, len(want))
	}
	for i := range want {
		if got[i] != want[i] {
			return fmt.Sprintf("Text line %d differs from line %d of the file", i+1, start+i)
		}
	}
	return ""
}

func interesting(r simrt.Race) bool {
	a, b := simrt.SiteName(r.PrevSite), simrt.SiteName(r.CurSite)
	hit := func(s string) bool {
		return strings.Contains(s, "results") || strings.Contains(s, "LicenseType")
	}
	return hit(a) && hit(b)
}

func run(c *hlib.Ctx) *hlib.Run {
	if c.RunIx%8 == 7 {
		return runMain(c)
	}
	return runBackend(c)
}

func mkdirFiles(files []fileSpec, nested bool) (dir string, paths []string, err error) {
	dir, err = os.MkdirTemp("", "verif-c19-")
	if err != nil {
		return "", nil, err
	}
	for i, f := range files {
		p := filepath.Join(dir, f.name)
		if nested && i%3 == 1 {
			sub := filepath.Join(dir, fmt.Sprintf("sub%d", i%2), "deeper")
			os.MkdirAll(sub, 0o755)
			p = filepath.Join(sub, f.name)
		}
		paths = append(paths, p)
		if f.missing {
			continue
		}
		if err := os.WriteFile(p, f.data, 0o644); err != nil {
			return dir, nil, err
		}
	}
	return dir, paths, nil
}

func runBackend(c *hlib.Ctx) *hlib.Run {
	s := c.S
	out := &hlib.Run{Counters: map[string]int64{"runs_backend_level": 1}}
	nfiles := s.Pick([]int{1, 2, 3, 3, 3, 2, 2, 1, 1, 1, 1, 1, 1}, "n-files")
	timeoutRun := s.Draw(10, "timeout-run") == 0
	allowMissing := s.Draw(5, "allow-missing") == 0
	files := make([]fileSpec, nfiles)
	for i := range files {
		files[i] = genFile(s, i, allowMissing)
	}
	headers := s.Draw(2, "headers") == 0
	numTasks := []int{1, 2, 3, nfiles, nfiles + 5, 1000}[s.Draw(6, "num-tasks")]
	if numTasks < 1 {
		numTasks = 1
	}
	withCtx := timeoutRun || s.Draw(2, "with-context") == 0
	includeText := s.Draw(2, "include-text") == 0
	dir, paths, err := mkdirFiles(files, false)
	if dir != "" {
		defer os.RemoveAll(dir)
	}
	if err != nil {
		panic(err)
	}
	// the same file may be named twice on the command line
	if nfiles > 0 && s.Draw(6, "duplicate-arg") == 0 {
		k := s.Draw(nfiles, "dup-which")
		files = append(files, files[k])
		paths = append(paths, paths[k])
		files[len(files)-1].desc = "again:" + files[k].desc
	}
	exp := map[string][]entry{}
	hasMissing := false
	for i, f := range files {
		if f.missing {
			hasMissing = true
			continue
		}
		exp[paths[i]] = append(exp[paths[i]], expected(f.data, headers)...)
	}

	cfg := simrt.DrawConfig(s)
	cfg.Race = true
	cfg.Trace = c.Trace
	cfg.MaxSteps = 400000
	// a Match is one step in most runs (C09 owns its interior); preempt inside
	// it only occasionally and coarsely
	if s.Draw(6, "preempt-inside-match") == 0 {
		cfg.YieldBudget = 512
	} else {
		cfg.YieldBudget = 0
	}
	sim := simrt.New(s, cfg)
	var errsOut []error
	var res results.LicenseTypes
	var jr results.JSONResult
	var jerr error
	cancelStep := 1 + s.Draw(60, "cancel-after")
	cancelled := false
	rep := sim.Run(func() {
		be := newBackend()
		if withCtx {
			ctx, cancel := simrt.WithCancel(context.Background())
			if timeoutRun {
				sim.Spawn("canceller", func() {
					for i := 0; i < cancelStep; i++ {
						simrt.Point("canceller waits")
					}
					cancelled = true
					sim.Count("fault_context_cancelled", 1)
					cancel()
				}).IsCaller = false
			}
			errsOut = be.ClassifyLicensesWithContext(ctx, numTasks, paths, headers)
		} else {
			errsOut = be.ClassifyLicenses(numTasks, paths, headers)
		}
		// what main does with the list: sort it in place, then build the JSON
		res = be.GetResults()
		if !timeoutRun {
			sort.Sort(res)
			jr, jerr = results.NewJSONResult(res, includeText)
		}
		res = append(results.LicenseTypes(nil), res...)
	})
	out.Steps, out.VirtualNS = rep.Steps, rep.VirtualNS
	out.Counters["tasks"] += int64(rep.Tasks)
	out.Counters["context_switches"] += rep.Switches
	for k, v := range rep.Counters {
		out.Counters[k] += v
	}
	if numTasks < nfiles {
		out.Counters["probe_numtasks_below_files"]++
	}
	if hasMissing {
		out.Counters["fault_missing_file"]++
	}
	out.Nontrivial = rep.Tasks >= 3 && rep.Switches >= 2
	var fdesc []string
	for _, f := range files {
		fdesc = append(fdesc, fmt.Sprintf("%s (%d bytes)", f.desc, len(f.data)))
	}
	out.Hash = rep.SchedHash ^ hlib.Hash64(fmt.Sprint(fdesc), fmt.Sprint(numTasks, headers, withCtx, timeoutRun))
	out.Sample = map[string]any{"level": "backend", "files": fdesc, "num_tasks": numTasks, "headers": headers, "with_context": withCtx, "cancelled_at_step": map[bool]int{true: cancelStep, false: -1}[timeoutRun],
		"tasks_total": rep.Tasks, "scheduling_points": rep.Steps, "context_switches": rep.Switches, "scheduler": cfg.String()}
	if c.Trace {
		out.Trace = append([]string{fmt.Sprintf("backend level: files=%v numTasks=%d headers=%v withCtx=%v timeoutRun=%v scheduler: %s", fdesc, numTasks, headers, withCtx, timeoutRun, cfg.String())}, rep.Trace...)
	}

	// ---- oracles ------------------------------------------------------------
	if len(rep.Panics) > 0 {
		p := rep.Panics[0]
		out.Violation = &hlib.Violation{Oracle: "no-panic", Class: "panic:" + firstLine(p.Value), Message: fmt.Sprintf("task %d (%s) panicked: %s (a panic in any goroutine kills the tool)\n%s", p.Task, p.Name, p.Value, trimStack(p.Stack))}
		return out
	}
	if rep.Deadlock != "" {
		out.Violation = &hlib.Violation{Oracle: "no-deadlock", Class: "deadlock:" + siteList(rep.Deadlock), Message: "deadlock: " + rep.Deadlock}
		return out
	}
	if rep.StepBound {
		out.Violation = &hlib.Violation{Oracle: "bounded-liveness", Class: "step-bound", Message: "the call did not return within the step bound"}
		return out
	}
	if len(rep.Leaked) > 0 {
		out.Counters["observed_leaked_goroutines"] += int64(len(rep.Leaked))
	}
	var otherRaces []string
	for _, r := range rep.Races {
		if interesting(r) && !(timeoutRun && cancelled) {
			out.Violation = &hlib.Violation{Oracle: "result-list-race-free", Class: "race:" + r.Class(), Message: "data race on the result list: " + r.String()}
			return out
		}
		otherRaces = append(otherRaces, r.Class())
		out.Counters["observed_race_outside_result_list: "+r.Class()]++
	}
	if len(otherRaces) > 0 {
		out.Counters["observed_races_outside_result_list"] += int64(len(otherRaces))
	}
	if timeoutRun && cancelled {
		// told to give up: the only demand is that the context error is reported
		found := false
		for _, e := range errsOut {
			if e == context.Canceled {
				found = true
			}
		}
		// the call may also have finished before the cancellation took effect
		if !found && len(errsOut) == 0 {
			out.Counters["cancel_after_completion"]++
			return out
		}
		if !found && !hasMissing {
			out.Violation = &hlib.Violation{Oracle: "timeout-reported", Class: "timeout-not-reported", Message: fmt.Sprintf("context was cancelled at step %d but the error list is %v", cancelStep, errsOut)}
		}
		return out
	}
	// errors: exactly the missing files
	nm := 0
	for _, f := range files {
		if f.missing {
			nm++
		}
	}
	if len(errsOut) != nm {
		out.Violation = &hlib.Violation{Oracle: "errors-match-unreadable-files", Class: "error-count", Message: fmt.Sprintf("%d unreadable files but %d errors: %v", nm, len(errsOut), errsOut)}
		return out
	}
	got := map[string][]entry{}
	for _, r := range res {
		if r == nil {
			out.Violation = &hlib.Violation{Oracle: "per-file-matches", Class: "nil-result-entry", Message: "GetResults contains a nil entry"}
			return out
		}
		got[r.Filename] = append(got[r.Filename], entry{r.MatchType, r.Name, r.Variant, math.Float64bits(r.Confidence), r.StartLine, r.EndLine})
	}
	seenPath := map[string]bool{}
	for i, f := range files {
		p := paths[i]
		if f.missing || seenPath[p] {
			continue
		}
		seenPath[p] = true
		if !sameMultiset(exp[p], got[p]) {
			out.Violation = &hlib.Violation{Oracle: "per-file-matches", Class: "results-differ-from-match:" + diffKind(exp[p], got[p]),
				Message: fmt.Sprintf("file %s (%s): the backend reports %v\n  but Match on the file's bytes gives %v (headers=%v, numTasks=%d; a file named twice is expected twice)", f.name, f.desc, got[p], exp[p], headers, numTasks)}
			return out
		}
		delete(got, p)
	}
	for p, e := range got {
		out.Violation = &hlib.Violation{Oracle: "per-file-matches", Class: "results-for-unknown-file", Message: fmt.Sprintf("results reported for %s which was not among the arguments: %v", p, e)}
		return out
	}
	// JSON assembly and Text
	total := 0
	for _, e := range exp {
		total += len(e)
	}
	if v := checkJSON(jr, jerr, includeText, files, paths, exp, out, false); v != nil {
		out.Violation = v
	}
	return out
}

func checkJSON(jr results.JSONResult, jerr error, includeText bool, files []fileSpec, paths []string, exp map[string][]entry, out *hlib.Run, viaJSON bool) *hlib.Violation {
	if jerr != nil {
		return &hlib.Violation{Oracle: "json-text", Class: "json-error:" + classOfErr(jerr), Message: fmt.Sprintf("NewJSONResult(includeText=%v) failed although every file is readable: %v", includeText, jerr)}
	}
	byPath := map[string]int{}
	for i, p := range paths {
		byPath[p] = i
	}
	seen := map[string]bool{}
	for _, fc := range jr {
		i, ok := byPath[fc.Filepath]
		if !ok || seen[fc.Filepath] {
			return &hlib.Violation{Oracle: "json-text", Class: "json-file-entry", Message: "JSON has an unknown or repeated file entry " + fc.Filepath}
		}
		seen[fc.Filepath] = true
		if len(fc.Classifications) != len(exp[fc.Filepath]) {
			return &hlib.Violation{Oracle: "json-text", Class: "json-classification-count", Message: fmt.Sprintf("JSON lists %d classifications for %s, Match gives %d", len(fc.Classifications), files[i].name, len(exp[fc.Filepath]))}
		}
		for _, cl := range fc.Classifications {
			if includeText {
				out.Counters["json_text_checked"]++
				if msg := checkText(cl.Text, files[i].data, cl.StartLine, cl.EndLine, viaJSON); msg != "" {
					return &hlib.Violation{Oracle: "json-text", Class: "json-text-mismatch", Message: fmt.Sprintf("file %s (%s), classification %s lines %d-%d: %s", files[i].name, files[i].desc, cl.Name, cl.StartLine, cl.EndLine, msg)}
				}
			} else if cl.Text != "" {
				return &hlib.Violation{Oracle: "json-text", Class: "json-text-unrequested", Message: "Text present without include_text"}
			}
		}
	}
	for p, e := range exp {
		if len(e) > 0 && !seen[p] {
			return &hlib.Violation{Oracle: "json-text", Class: "json-file-missing", Message: "JSON lacks the file " + p}
		}
	}
	return nil
}

func classOfErr(err error) string {
	s := err.Error()
	switch {
	case strings.Contains(s, "was the last line read"):
		return "short-read-of-lines"
	case strings.Contains(s, "token too long"):
		return "token-too-long"
	}
	return "other"
}

func diffKind(exp, got []entry) string {
	switch {
	case len(got) < len(exp):
		return "missing"
	case len(got) > len(exp):
		return "extra"
	}
	return "different"
}

// ---------------------------------------------------------------------------
// main level

func runMain(c *hlib.Ctx) *hlib.Run {
	s := c.S
	out := &hlib.Run{Counters: map[string]int64{"runs_main_level": 1}}
	nfiles := s.Draw(7, "n-files")
	files := make([]fileSpec, nfiles)
	for i := range files {
		files[i] = genFile(s, i, false)
	}
	headers := s.Draw(2, "headers") == 0
	useJSON := s.Draw(3, "json") != 0
	includeText := useJSON && s.Draw(2, "include-text") == 0
	nested := s.Draw(2, "nested") == 0
	byDir := s.Draw(2, "args-are-dirs") == 0
	numTasks := []int{1, 2, 3, nfiles + 1, 1000}[s.Draw(5, "num-tasks")]
	realRun := s.Draw(3, "also-run-real-binary") == 0
	realBin := c.Args["realbin.identify_license"]
	if _, err := os.Stat(realBin); err != nil {
		realBin = ""
	}
	dir, paths, err := mkdirFiles(files, nested)
	if dir != "" {
		defer os.RemoveAll(dir)
	}
	if err != nil {
		panic(err)
	}
	jsonPath := filepath.Join(dir, "..", filepath.Base(dir)+".out.json")
	defer os.Remove(jsonPath)
	args := []string{"identify_license", fmt.Sprintf("-headers=%v", headers), fmt.Sprintf("-tasks=%d", numTasks), fmt.Sprintf("-include_text=%v", includeText),
		"-timeout=24h", "-trace_phases=", "-trace_licenses=", "-ignore_paths_re="}
	if useJSON {
		args = append(args, "-json="+jsonPath)
		if s.Draw(3, "json-target-exists") == 0 {
			// the report file of an earlier, larger scan is still there
			os.WriteFile(jsonPath, []byte("[\n"+strings.Repeat(` {"Filepath": "/old/scan/file.txt", "Classifications": [{"Name": "Old", "Confidence": 1, "StartLine": 1, "EndLine": 2}]},`+"\n", 400)+` {"Filepath": "/old/last", "Classifications": []}`+"\n]\n"), 0o644)
			out.Counters["probe_json_target_preexisting"]++
		}
	} else {
		args = append(args, "-json=")
	}
	if byDir || nfiles == 0 {
		args = append(args, dir)
	} else {
		args = append(args, paths...)
	}
	exp := map[string][]entry{}
	total := 0
	for i, f := range files {
		exp[paths[i]] = expected(f.data, headers)
		total += len(exp[paths[i]])
	}
	// an unreadable file among the arguments: a dangling symbolic link
	unreadable := s.Draw(8, "unreadable-file") == 0
	if unreadable {
		link := filepath.Join(dir, "zz-dangling.txt")
		if err := os.Symlink(filepath.Join(dir, "does-not-exist"), link); err != nil {
			unreadable = false
		} else if !(byDir || nfiles == 0) {
			args = append(args, link)
		}
		out.Counters["fault_unreadable_file_main_level"]++
	}

	cfg := simrt.DrawConfig(s)
	cfg.Race = true
	cfg.Trace = c.Trace
	cfg.MaxSteps = 400000
	cfg.YieldBudget = 0 // classifier construction inside main is long; interleave at synchronisation only
	sim := simrt.New(s, cfg)
	oldArgs := os.Args
	os.Args = args
	simrt.BeginMain()
	rep := sim.Run(func() { idmain.Main() })
	stdout, _ := simrt.EndMain()
	os.Args = oldArgs

	out.Steps, out.VirtualNS = rep.Steps, rep.VirtualNS
	out.Counters["tasks"] += int64(rep.Tasks)
	out.Counters["context_switches"] += rep.Switches
	for k, v := range rep.Counters {
		out.Counters[k] += v
	}
	out.Nontrivial = rep.Tasks >= 3 && rep.Switches >= 2
	var fdesc []string
	for _, f := range files {
		fdesc = append(fdesc, fmt.Sprintf("%s (%d bytes)", f.desc, len(f.data)))
	}
	out.Hash = rep.SchedHash ^ hlib.Hash64(fmt.Sprint(fdesc), strings.Join(args[1:8], " "), fmt.Sprint(useJSON, byDir, nested)) // not the JSON path: it contains a random directory name
	out.Sample = map[string]any{"level": "main", "argv": args[1:9], "files": fdesc, "by_directory": byDir, "nested": nested, "tasks_total": rep.Tasks, "context_switches": rep.Switches}
	if c.Trace {
		out.Trace = append([]string{fmt.Sprintf("main level: argv=%v files=%v", args, fdesc)}, rep.Trace...)
		out.Trace = append(out.Trace, "stdout:\n"+stdout)
	}

	exit := 0
	for _, p := range rep.Panics {
		if strings.HasPrefix(p.Value, "exit status ") && p.Task == 0 {
			fmt.Sscanf(p.Value, "exit status %d", &exit)
			continue
		}
		out.Violation = &hlib.Violation{Oracle: "no-panic", Class: "panic:" + firstLine(p.Value), Message: fmt.Sprintf("task %d (%s) panicked: %s\n%s", p.Task, p.Name, p.Value, trimStack(p.Stack))}
		return out
	}
	if rep.Deadlock != "" {
		out.Violation = &hlib.Violation{Oracle: "no-deadlock", Class: "deadlock:" + siteList(rep.Deadlock), Message: "deadlock: " + rep.Deadlock}
		return out
	}
	if rep.StepBound {
		out.Violation = &hlib.Violation{Oracle: "bounded-liveness", Class: "step-bound", Message: "main did not finish within the step bound"}
		return out
	}
	for _, r := range rep.Races {
		if interesting(r) {
			out.Violation = &hlib.Violation{Oracle: "result-list-race-free", Class: "race:" + r.Class(), Message: "data race on the result list: " + r.String()}
			return out
		}
	}
	if v := judgeOutput(stdout, exit, useJSON, jsonPath, includeText, files, paths, exp, out, args, unreadable); v != nil {
		out.Violation = v
		return out
	}
	// ---- the real binary, as an operating-system process (not simulated) ----
	if realBin != "" && realRun {
		rj := jsonPath + ".real"
		defer os.Remove(rj)
		rargs := append([]string(nil), args[1:]...)
		for i, a := range rargs {
			if strings.HasPrefix(a, "-json=") && useJSON {
				rargs[i] = "-json=" + rj
			}
		}
		fails := 0
		var last *hlib.Violation
		for try := 0; try < 3; try++ {
			os.Remove(rj)
			ctx, cancelRun := context.WithTimeout(context.Background(), 90*time.Second)
			cmd := exec.CommandContext(ctx, realBin, rargs...)
			var so, se bytes.Buffer
			cmd.Stdout, cmd.Stderr = &so, &se
			err := cmd.Run()
			hung := ctx.Err() != nil
			cancelRun()
			rexit := 0
			if ee, ok := err.(*exec.ExitError); ok {
				rexit = ee.ExitCode()
			} else if err != nil {
				rexit = -1
			}
			out.Counters["real_binary_executions(not_simulated)"]++
			v := judgeOutput(so.String(), rexit, useJSON, rj, includeText, files, paths, exp, out, args, unreadable)
			if hung {
				v = &hlib.Violation{Oracle: "bounded-liveness", Class: "hang", Message: "the real binary did not terminate within 90 seconds"}
			}
			if v == nil && strings.Contains(se.String(), "panic:") {
				v = &hlib.Violation{Oracle: "no-panic", Class: "real-binary-panic", Message: "the real binary panicked:\n" + firstLines(se.String(), 30)}
			}
			if v == nil {
				break
			}
			fails++
			last = v
		}
		switch {
		case fails == 3:
			last.Class = "real-binary:" + last.Class
			last.Flaky = true // depends on the operating system's scheduler, not on the choice vector
			last.Message = "observed on the real binary run as an OS process (3 of 3 executions):\n" + last.Message
			out.Violation = last
		case fails > 0:
			out.Counters["real_binary_flaky_failure(not_reported:not_replayable)"]++
		}
	}
	return out
}

func firstLines(s string, n int) string {
	l := strings.Split(s, "\n")
	if len(l) > n {
		l = l[:n]
	}
	return strings.Join(l, "\n")
}

// judgeOutput applies the output oracles to what one execution of the tool
// printed, its exit status and its JSON file.
func judgeOutput(stdout string, exit int, useJSON bool, jsonPath string, includeText bool, files []fileSpec, paths []string, exp map[string][]entry, out *hlib.Run, args []string, unreadable bool) *hlib.Violation {
	var lines []string
	for _, l := range strings.Split(stdout, "\n") {
		if l != "" {
			lines = append(lines, l)
		}
	}
	if unreadable {
		if len(lines) != 0 || exit == 0 {
			return &hlib.Violation{Oracle: "exit-status", Class: fmt.Sprintf("unreadable-file:exit-%d-lines-%d", exit, len(lines)),
				Message: fmt.Sprintf("one argument is a dangling symbolic link; the tool printed %d lines and exited with status %d", len(lines), exit)}
		}
		return nil
	}
	var want []string
	for i := range files {
		for _, e := range exp[paths[i]] {
			name := e.Name
			if e.MatchType != "License" && e.MatchType != "Header" {
				name = e.MatchType + ":" + e.Name
			}
			want = append(want, fmt.Sprintf("%s %s (variant: %v, confidence: %v, start: %v, end: %v)", paths[i], name, e.Variant, math.Float64frombits(e.Conf), e.Start, e.End))
		}
	}
	gotSorted := append([]string(nil), lines...)
	sort.Strings(gotSorted)
	sort.Strings(want)
	if strings.Join(gotSorted, "\n") != strings.Join(want, "\n") {
		return &hlib.Violation{Oracle: "printed-lines", Class: "stdout-differs-from-match:" + map[bool]string{true: "fewer", false: "other"}[len(gotSorted) < len(want)],
			Message: fmt.Sprintf("the tool printed\n%s\nbut Match on the files gives\n%s", indent(gotSorted), indent(want))}
	}
	if (exit == 0) != (len(lines) > 0) {
		return &hlib.Violation{Oracle: "exit-status", Class: fmt.Sprintf("exit-status-%d-with-%s-lines", exit, map[bool]string{true: "some", false: "no"}[len(lines) > 0]),
			Message: fmt.Sprintf("exit status %d but %d licenses were reported (argv %v)", exit, len(lines), args[1:9])}
	}
	if useJSON && exit == 0 {
		b, err := os.ReadFile(jsonPath)
		if err != nil {
			return &hlib.Violation{Oracle: "json-text", Class: "json-not-written", Message: "exit status 0 but the JSON file was not written: " + err.Error()}
		}
		var jr results.JSONResult
		if err := json.Unmarshal(b, &jr); err != nil {
			return &hlib.Violation{Oracle: "json-text", Class: "json-unparsable", Message: err.Error()}
		}
		if v := checkJSON(jr, nil, includeText, files, paths, exp, out, true); v != nil {
			return v
		}
	}
	return nil
}

func indent(l []string) string {
	if len(l) == 0 {
		return "  (nothing)"
	}
	return "  " + strings.Join(l, "\n  ")
}

func siteList(d string) string {
	// distinct blocking sites only (the number of blocked tasks varies)
	seen := map[string]bool{}
	var sites []string
	for _, part := range strings.Split(d, "; ") {
		if i := strings.LastIndex(part, " at "); i >= 0 && !seen[part[i+4:]] {
			seen[part[i+4:]] = true
			sites = append(sites, part[i+4:])
		}
	}
	sort.Strings(sites)
	return strings.Join(sites, ",")
}

func firstLine(s string) string {
	if i := strings.IndexByte(s, '\n'); i >= 0 {
		s = s[:i]
	}
	if len(s) > 100 {
		s = s[:100]
	}
	return s
}

func trimStack(s string) string {
	lines := strings.Split(s, "\n")
	if len(lines) > 40 {
		lines = lines[:40]
	}
	return strings.Join(lines, "\n")
}

func main() {
	hlib.Main(&hlib.Harness{
		Property: "C19",
		Setup:    setup,
		Run:      run,
		// the classifier is shared by the runs of a worker process: a finding is
		// confirmed in a fresh process before it is recorded
		ChildVerify: true,
		Info: func() map[string]any {
			return map[string]any{
				"real_code":  []string{"v2/tools/identify_license (main, renamed to an importable package), backend, results: re-compiled from the tree under test after source instrumentation", "v2 classifier package: instrumented for yields only", "file system: real files in a temporary directory"},
				"simulated":  []string{"worker goroutines, closer goroutine, collector loop; sync.WaitGroup, sync.Mutex, buffered and unbuffered channels, select, context cancellation/deadline; process exit, log.Fatal and stdout of main (in-process)"},
				"unmodelled": simrt.Unmodelled(),
				"levels":     "runs with index%8 == 7 execute the whole main(); the others drive the backend API (ClassifyLicenses / ClassifyLicensesWithContext, GetResults, NewJSONResult)",
				"oracles":    []string{"per-file multiset of reported matches == Match(file bytes) filtered by -headers", "errors == unreadable files", "JSON Text == lines StartLine..EndLine of the file", "exit status 0 iff a license was printed (main level)", "no panic in any goroutine (also after the call returned), no deadlock, return within the step bound", "no data race on the result list"},
			}
		},
	})
}
