package simrt

import (
	"sync"
	"unsafe"
)

// sync.Pool is modelled so that executions that use one stay deterministic:
// the real Pool hands out items depending on the P the goroutine runs on and
// on garbage collections. Here Put stores the item in a per-pool list and Get
// draws whether and which stored item is returned (a real Pool may return any
// stored item or none), calling New otherwise.

type poolItem struct {
	v  any
	vc []uint32
}

type poolState struct{ items []poolItem }

// PoolGet replaces p.Get().
func PoolGet(p *sync.Pool, site int) any {
	sim := cur
	if sim == nil {
		return p.Get()
	}
	if sim.dead() {
		return nil
	}
	if sim.pools == nil {
		sim.pools = map[unsafe.Pointer]*poolState{}
	}
	st := sim.pools[unsafe.Pointer(p)]
	if st == nil {
		st = &poolState{}
		sim.pools[unsafe.Pointer(p)] = st
	}
	sim.schedPoint(site, "Pool.Get", nil)
	if sim.dead() {
		return nil
	}
	if n := len(st.items); n > 0 && sim.S.Draw(8, "pool-miss") != 7 {
		i := n - 1 - sim.S.Draw(n, "pool-which") // 0 = most recently put
		it := st.items[i]
		st.items = append(st.items[:i], st.items[i+1:]...)
		sim.acq(it.vc)
		sim.rep.Counters["pool_get_reused"]++
		return it.v
	}
	sim.rep.Counters["pool_get_new"]++
	if p.New != nil {
		return p.New()
	}
	return nil
}

// PoolPut replaces p.Put(x).
func PoolPut(p *sync.Pool, x any, site int) {
	sim := cur
	if sim == nil {
		p.Put(x)
		return
	}
	if sim.dead() || x == nil {
		return
	}
	if sim.pools == nil {
		sim.pools = map[unsafe.Pointer]*poolState{}
	}
	st := sim.pools[unsafe.Pointer(p)]
	if st == nil {
		st = &poolState{}
		sim.pools[unsafe.Pointer(p)] = st
	}
	st.items = append(st.items, poolItem{x, sim.myVC()})
	sim.schedPoint(site, "Pool.Put", nil)
}
