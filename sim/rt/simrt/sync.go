package simrt

import (
	"fmt"
	"runtime"
	"sync"
	"unsafe"
)

// dead reports whether the calling context must not perform simulated
// operations any more (task being unwound after the run ended).
func (sim *Sim) dead() bool {
	t := sim.running
	return t == nil || t.killed
}

// ---------------------------------------------------------------------------
// sync.Mutex

type muState struct {
	locked bool
	owner  int
	vc     []uint32 // release clock
}

func (sim *Sim) mu(p unsafe.Pointer) *muState {
	m := sim.mus[p]
	if m == nil {
		m = &muState{}
		sim.mus[p] = m
	}
	return m
}

// Locker is the set of lock types the instrumenter rewrites.
type Locker interface {
	*sync.Mutex | *sync.RWMutex
}

// Lock replaces mu.Lock().
func Lock[L Locker](l L, site int) {
	sim := cur
	if sim == nil {
		any(l).(sync.Locker).Lock()
		return
	}
	if sim.dead() {
		return
	}
	switch v := any(l).(type) {
	case *sync.Mutex:
		sim.lockMutex(unsafe.Pointer(v), site)
	case *sync.RWMutex:
		sim.lockRW(unsafe.Pointer(v), site)
	}
}

// Unlock replaces mu.Unlock().
func Unlock[L Locker](l L, site int) {
	sim := cur
	if sim == nil {
		any(l).(sync.Locker).Unlock()
		return
	}
	if sim.dead() {
		return
	}
	switch v := any(l).(type) {
	case *sync.Mutex:
		sim.unlockMutex(unsafe.Pointer(v), site)
	case *sync.RWMutex:
		sim.unlockRW(unsafe.Pointer(v), site)
	}
}

// TryLock replaces mu.TryLock().
func TryLock[L Locker](l L, site int) bool {
	sim := cur
	if sim == nil {
		switch v := any(l).(type) {
		case *sync.Mutex:
			return v.TryLock()
		case *sync.RWMutex:
			return v.TryLock()
		}
	}
	if sim.dead() {
		return false
	}
	sim.schedPoint(site, "TryLock", nil)
	switch v := any(l).(type) {
	case *sync.Mutex:
		m := sim.mu(unsafe.Pointer(v))
		if m.locked {
			return false
		}
		m.locked = true
		m.owner = sim.running.ID
		sim.running.held++
		if sim.race != nil {
			sim.race.acquire(sim.running, m.vc)
		}
		return true
	case *sync.RWMutex:
		r := sim.rw(unsafe.Pointer(v))
		if r.writer || r.readers > 0 {
			return false
		}
		r.writer = true
		sim.running.held++
		if sim.race != nil {
			sim.race.acquire(sim.running, r.wvc)
			sim.race.acquire(sim.running, r.rvc)
		}
		return true
	}
	return false
}

func (sim *Sim) lockMutex(p unsafe.Pointer, site int) {
	m := sim.mu(p)
	sim.schedPoint(site, "Mutex.Lock", func() bool { return !m.locked })
	if sim.dead() {
		return
	}
	m.locked = true
	m.owner = sim.running.ID
	sim.running.held++
	if sim.race != nil {
		sim.race.acquire(sim.running, m.vc)
	}
}

// noteUnlock keeps track of how many write locks the task holds and, when the
// unlock runs as a deferred call during panic unwinding, how many it held at
// the time of the panic.
func (sim *Sim) noteUnlock() {
	t := sim.running
	if t == nil || t.held <= 0 {
		return
	}
	if t.held > t.heldAtPanic && panicking() {
		t.heldAtPanic = t.held
	}
	t.held--
}

func panicking() bool {
	var pcs [64]uintptr
	n := runtime.Callers(2, pcs[:])
	fr := runtime.CallersFrames(pcs[:n])
	for {
		f, more := fr.Next()
		if f.Function == "runtime.gopanic" {
			return true
		}
		if !more {
			return false
		}
	}
}

func (sim *Sim) unlockMutex(p unsafe.Pointer, site int) {
	m := sim.mu(p)
	if !m.locked {
		// the real runtime throws an unrecoverable fatal error
		panic(fmt.Sprintf("fatal error: sync: unlock of unlocked mutex (at %s)", SiteName(site)))
	}
	if sim.race != nil {
		m.vc = sim.race.release(sim.running, nil)
	}
	m.locked = false
	sim.noteUnlock()
	sim.schedPoint(site, "Mutex.Unlock", nil)
}

// ---------------------------------------------------------------------------
// sync.RWMutex (writer preference as in the Go runtime: a blocked Lock keeps
// new readers out)

type rwWaiter struct{ granted bool }

type rwState struct {
	writer         bool
	readers        int
	writersWaiting int
	rq             []*rwWaiter // readers blocked behind a (pending) writer; all are admitted by the next Unlock, as in the runtime
	wvc            []uint32    // clock released by the last Unlock
	rvc            []uint32    // join of clocks released by RUnlocks since the last Lock
}

func (sim *Sim) rw(p unsafe.Pointer) *rwState {
	r := sim.rws[p]
	if r == nil {
		r = &rwState{}
		sim.rws[p] = r
	}
	return r
}

func (sim *Sim) lockRW(p unsafe.Pointer, site int) {
	r := sim.rw(p)
	sim.schedPoint(site, "RWMutex.Lock(attempt)", nil)
	if sim.dead() {
		return
	}
	if r.writer || r.readers > 0 {
		r.writersWaiting++
		sim.schedPoint(site, "RWMutex.Lock", func() bool { return !r.writer && r.readers == 0 })
		r.writersWaiting--
		if sim.dead() {
			return
		}
	}
	r.writer = true
	sim.running.held++
	if sim.race != nil {
		sim.race.acquire(sim.running, r.wvc)
		sim.race.acquire(sim.running, r.rvc)
	}
}

func (sim *Sim) unlockRW(p unsafe.Pointer, site int) {
	r := sim.rw(p)
	if !r.writer {
		panic(fmt.Sprintf("fatal error: sync: Unlock of unlocked RWMutex (at %s)", SiteName(site)))
	}
	if sim.race != nil {
		r.wvc = sim.race.release(sim.running, nil)
		r.rvc = nil
	}
	r.writer = false
	sim.noteUnlock()
	for _, w := range r.rq {
		w.granted = true
		r.readers++
	}
	r.rq = nil
	sim.schedPoint(site, "RWMutex.Unlock", nil)
}

// RLock replaces rw.RLock().
func RLock(l *sync.RWMutex, site int) {
	sim := cur
	if sim == nil {
		l.RLock()
		return
	}
	if sim.dead() {
		return
	}
	r := sim.rw(unsafe.Pointer(l))
	sim.schedPoint(site, "RWMutex.RLock(attempt)", nil)
	if sim.dead() {
		return
	}
	if !r.writer && r.writersWaiting == 0 {
		r.readers++
	} else {
		w := &rwWaiter{}
		r.rq = append(r.rq, w)
		sim.schedPoint(site, "RWMutex.RLock", func() bool { return w.granted })
		if sim.dead() {
			return
		}
	}
	if sim.race != nil {
		sim.race.acquire(sim.running, r.wvc)
	}
}

// RUnlock replaces rw.RUnlock().
func RUnlock(l *sync.RWMutex, site int) {
	sim := cur
	if sim == nil {
		l.RUnlock()
		return
	}
	if sim.dead() {
		return
	}
	r := sim.rw(unsafe.Pointer(l))
	if r.readers <= 0 {
		panic(fmt.Sprintf("fatal error: sync: RUnlock of unlocked RWMutex (at %s)", SiteName(site)))
	}
	if sim.race != nil {
		r.rvc = sim.race.release(sim.running, r.rvc)
	}
	r.readers--
	sim.schedPoint(site, "RWMutex.RUnlock", nil)
}

// ---------------------------------------------------------------------------
// sync.WaitGroup

type wgState struct {
	n       int
	waiters int
	gen     int // incremented when the counter reaches zero with waiters (they are all released at that moment)
	vc      []uint32
}

func (sim *Sim) wg(p unsafe.Pointer) *wgState {
	w := sim.wgs[p]
	if w == nil {
		w = &wgState{}
		sim.wgs[p] = w
	}
	return w
}

// WGAdd replaces wg.Add(n).
func WGAdd(wg *sync.WaitGroup, n int, site int) {
	sim := cur
	if sim == nil {
		wg.Add(n)
		return
	}
	if sim.dead() {
		return
	}
	w := sim.wg(unsafe.Pointer(wg))
	if n < 0 && sim.race != nil {
		// Done: release
		w.vc = sim.race.release(sim.running, w.vc)
	}
	w.n += n
	if w.n < 0 {
		panic("sync: negative WaitGroup counter")
	}
	if n > 0 && w.waiters > 0 && w.n == n {
		panic("sync: WaitGroup misuse: Add called concurrently with Wait")
	}
	if w.n == 0 && w.waiters > 0 {
		w.gen++
		w.waiters = 0
	}
	sim.schedPoint(site, fmt.Sprintf("WaitGroup.Add(%d) -> %d", n, w.n), nil)
}

// WGDone replaces wg.Done().
func WGDone(wg *sync.WaitGroup, site int) { WGAdd(wg, -1, site) }

// WGWait replaces wg.Wait().
func WGWait(wg *sync.WaitGroup, site int) {
	sim := cur
	if sim == nil {
		wg.Wait()
		return
	}
	if sim.dead() {
		return
	}
	w := sim.wg(unsafe.Pointer(wg))
	sim.schedPoint(site, "WaitGroup.Wait(attempt)", nil)
	if sim.dead() {
		return
	}
	if w.n != 0 {
		gen := w.gen
		w.waiters++
		sim.schedPoint(site, "WaitGroup.Wait", func() bool { return w.gen != gen })
		if sim.dead() {
			return
		}
	}
	if sim.race != nil {
		sim.race.acquire(sim.running, w.vc)
	}
}
