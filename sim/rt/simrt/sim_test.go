package simrt

import (
	"fmt"
	"sync"
	"testing"

	"verifsim/simrt/choice"
)

func runSeeds(t *testing.T, n int, cfg Config, body func(sim *Sim), check func(seed int, rep *Report)) {
	for seed := 0; seed < n; seed++ {
		s := choice.New(uint64(seed), 7)
		c := cfg
		c.Strategy = seed % numStrategies
		sim := New(s, c)
		rep := sim.Run(func() { body(sim) })
		check(seed, rep)
	}
}

func TestMutexExclusionAndNoRace(t *testing.T) {
	outcomes := map[int]int{}
	runSeeds(t, 200, Config{Race: true}, func(sim *Sim) {
		var mu sync.Mutex
		var wg sync.WaitGroup
		x := new(int)
		for i := 0; i < 4; i++ {
			WGAdd(&wg, 1, 0)
			Go(0, func() {
				Lock(&mu, 0)
				v := *R(x, 1)
				Point("between")
				*W(x, 2) = v + 1
				Unlock(&mu, 0)
				WGDone(&wg, 0)
			})
		}
		WGWait(&wg, 0)
		outcomes[*R(x, 3)]++
	}, func(seed int, rep *Report) {
		if len(rep.Races) != 0 || rep.Deadlock != "" || len(rep.Panics) != 0 {
			t.Fatalf("seed %d: %+v", seed, rep)
		}
	})
	if len(outcomes) != 1 || outcomes[4] != 200 {
		t.Fatalf("outcomes %v", outcomes)
	}
}

func TestLostUpdateAndRaceWithoutLock(t *testing.T) {
	outcomes := map[int]int{}
	races := 0
	runSeeds(t, 200, Config{Race: true}, func(sim *Sim) {
		var wg sync.WaitGroup
		x := new(int)
		for i := 0; i < 3; i++ {
			WGAdd(&wg, 1, 0)
			Go(0, func() {
				v := *R(x, 1)
				Point("between")
				*W(x, 2) = v + 1
				WGDone(&wg, 0)
			})
		}
		WGWait(&wg, 0)
		outcomes[*R(x, 3)]++
	}, func(seed int, rep *Report) {
		if len(rep.Races) > 0 {
			races++
		}
	})
	if races != 200 {
		t.Fatalf("race must be reported in every schedule (it is schedule-insensitive), got %d/200", races)
	}
	if len(outcomes) < 2 {
		t.Fatalf("lost updates never observed: %v", outcomes)
	}
}

func TestChannelsAndSelect(t *testing.T) {
	runSeeds(t, 300, Config{Race: true}, func(sim *Sim) {
		ch := MakeChan[int](0, 0)
		bch := MakeChan[int](2, 0)
		done := MakeChan[bool](0, 0)
		data := new(int)
		Go(0, func() {
			*W(data, 1) = 42
			Send(ch, 1, 0)
			Send(bch, 2, 0)
			Send(bch, 3, 0)
			Send(bch, 4, 0)
			Close(bch, 0)
		})
		Go(0, func() {
			sum := 0
			for {
				v, ok := Recv2(bch, 0)
				if !ok {
					break
				}
				sum += v
			}
			if sum != 9 {
				panic(fmt.Sprint("sum ", sum))
			}
			Send(done, true, 0)
		})
		if v := Recv(ch, 0); v != 1 {
			panic("bad value")
		}
		if *R(data, 2) != 42 {
			panic("data not visible")
		}
		sel := Select(0, CaseRecv(done), CaseRecv(MakeChan[int](0, 0)))
		if sel.Index != 0 || !SelVal(done, sel) {
			panic("select")
		}
	}, func(seed int, rep *Report) {
		if len(rep.Races) != 0 || rep.Deadlock != "" || len(rep.Panics) != 0 || len(rep.Leaked) != 0 {
			t.Fatalf("seed %d: races=%v deadlock=%q panics=%v leaked=%v", seed, rep.Races, rep.Deadlock, rep.Panics, rep.Leaked)
		}
	})
}

func TestDeadlockDetected(t *testing.T) {
	dl := 0
	runSeeds(t, 100, Config{}, func(sim *Sim) {
		var a, b sync.Mutex
		var wg sync.WaitGroup
		WGAdd(&wg, 2, 0)
		Go(0, func() { Lock(&a, 0); Lock(&b, 0); Unlock(&b, 0); Unlock(&a, 0); WGDone(&wg, 0) })
		Go(0, func() { Lock(&b, 0); Lock(&a, 0); Unlock(&a, 0); Unlock(&b, 0); WGDone(&wg, 0) })
		WGWait(&wg, 0)
	}, func(seed int, rep *Report) {
		if rep.Deadlock != "" {
			dl++
		}
	})
	if dl == 0 || dl == 100 {
		t.Fatalf("lock-order deadlock should occur in some schedules only: %d/100", dl)
	}
}

func TestSendOnClosedPanics(t *testing.T) {
	// the wg.Done(); ch <- true  vs  wg.Wait(); close(ch) pattern
	pan := 0
	runSeeds(t, 300, Config{}, func(sim *Sim) {
		task := MakeChan[bool](1, 0)
		var wg sync.WaitGroup
		WGAdd(&wg, 1, 0)
		Recv(func() <-chan bool { Send(task, true, 0); return task }(), 0)
		Go(0, func() { WGDone(&wg, 0); Send(task, true, 0) })
		Go(0, func() { WGWait(&wg, 0); Close(task, 0) })
	}, func(seed int, rep *Report) {
		for _, p := range rep.Panics {
			if p.Value == "send on closed channel" {
				pan++
			}
		}
	})
	if pan == 0 || pan == 300 {
		t.Fatalf("send on closed channel in some schedules only: %d/300", pan)
	}
}

func TestRWMutexWriterPreferenceDeadlock(t *testing.T) {
	dl := 0
	runSeeds(t, 300, Config{}, func(sim *Sim) {
		var rw sync.RWMutex
		var wg sync.WaitGroup
		WGAdd(&wg, 2, 0)
		Go(0, func() {
			RLock(&rw, 0)
			Point("x")
			RLock(&rw, 0)
			RUnlock(&rw, 0)
			RUnlock(&rw, 0)
			WGDone(&wg, 0)
		})
		Go(0, func() { Lock(&rw, 0); Unlock(&rw, 0); WGDone(&wg, 0) })
		WGWait(&wg, 0)
	}, func(seed int, rep *Report) {
		if rep.Deadlock != "" {
			dl++
		}
	})
	if dl == 0 || dl == 300 {
		t.Fatalf("recursive read lock deadlocks in some schedules only: %d/300", dl)
	}
}

func TestDeterministicReplay(t *testing.T) {
	prog := func(sim *Sim) func() {
		return func() {
			ch := MakeChan[int](1, 0)
			var wg sync.WaitGroup
			for i := 0; i < 5; i++ {
				i := i
				WGAdd(&wg, 1, 0)
				Go(0, func() { Send(ch, i, 0); Recv(ch, 0); WGDone(&wg, 0) })
			}
			WGWait(&wg, 0)
		}
	}
	for seed := 0; seed < 50; seed++ {
		s := choice.New(uint64(seed), 1)
		sim := New(s, Config{Strategy: seed % numStrategies, Trace: true})
		rep := sim.Run(prog(sim))
		vec := s.Recorded()
		sim2 := New(choice.Replay(vec), Config{Strategy: seed % numStrategies, Trace: true})
		rep2 := sim2.Run(prog(sim2))
		if rep.SchedHash != rep2.SchedHash || fmt.Sprint(rep.Trace) != fmt.Sprint(rep2.Trace) {
			t.Fatalf("seed %d: replay diverged", seed)
		}
	}
}

func TestCondProducerConsumer(t *testing.T) {
	runSeeds(t, 300, Config{Race: true}, func(sim *Sim) {
		var mu sync.Mutex
		c := sync.NewCond(&mu)
		queue := new([]int)
		got := new(int)
		var wg sync.WaitGroup
		for i := 0; i < 3; i++ {
			WGAdd(&wg, 1, 0)
			Go(0, func() {
				Lock(&mu, 0)
				for len(*R(queue, 1)) == 0 {
					CondWait(c, 0)
				}
				*W(queue, 2) = (*R(queue, 3))[1:]
				*W(got, 4) = *R(got, 5) + 1
				Unlock(&mu, 0)
				WGDone(&wg, 0)
			})
		}
		for i := 0; i < 3; i++ {
			Lock(&mu, 0)
			*W(queue, 6) = append(*R(queue, 7), i)
			Unlock(&mu, 0)
			if i%2 == 0 {
				CondSignal(c, 0)
			} else {
				CondBroadcast(c, 0)
			}
		}
		WGWait(&wg, 0)
		if *R(got, 8) != 3 {
			panic("lost item")
		}
	}, func(seed int, rep *Report) {
		if len(rep.Races) != 0 || rep.Deadlock != "" || len(rep.Panics) != 0 {
			t.Fatalf("seed %d: races=%v deadlock=%q panics=%v", seed, rep.Races, rep.Deadlock, rep.Panics)
		}
	})
}
