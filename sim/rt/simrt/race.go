package simrt

import (
	"fmt"
	"unsafe"
)

// Happens-before race checking over the program's own synchronisation.
//
// The scheduler executes every synchronisation operation itself, so it keeps
// a vector clock per task and per lock / WaitGroup / channel item. Every
// instrumented access is checked against shadow cells keyed by 8-byte word
// with byte masks: a write that is not ordered after every previous access of
// overlapping bytes by another task, or a read not ordered after the previous
// overlapping write, is a data race under the Go memory model.

// Race is one reported data race.
type Race struct {
	Addr      uintptr
	IsMap     bool
	PrevTask  int
	PrevWrite bool
	PrevSite  int
	CurTask   int
	CurWrite  bool
	CurSite   int
	Step      int64
}

func (r Race) String() string {
	k := func(w bool) string {
		if w {
			return "write"
		}
		return "read"
	}
	obj := "memory"
	if r.IsMap {
		obj = "map"
	}
	return fmt.Sprintf("%s by task %d at %s races with earlier %s by task %d at %s (%s %#x, step %d)",
		k(r.CurWrite), r.CurTask, SiteName(r.CurSite), k(r.PrevWrite), r.PrevTask, SiteName(r.PrevSite), obj, r.Addr, r.Step)
}

// Class is a run-independent signature of the race (sites only, ordered).
func (r Race) Class() string {
	a, b := SiteName(r.PrevSite), SiteName(r.CurSite)
	ka, kb := "r", "r"
	if r.PrevWrite {
		ka = "w"
	}
	if r.CurWrite {
		kb = "w"
	}
	x, y := ka+"@"+a, kb+"@"+b
	if y < x {
		x, y = y, x
	}
	return x + " <-> " + y
}

type accRec struct {
	mask  uint8
	write bool
	tid   int32
	clk   uint32
	site  int32
}

type cell struct {
	accs []accRec
}

type raceState struct {
	shadow map[uintptr]*cell
	keep   map[unsafe.Pointer]struct{}
	maps   map[unsafe.Pointer]any
	races  []Race
	seen   map[string]bool
	checks int64
}

func newRaceState() *raceState {
	return &raceState{shadow: map[uintptr]*cell{}, keep: map[unsafe.Pointer]struct{}{}, maps: map[unsafe.Pointer]any{}, seen: map[string]bool{}}
}

// keepAlive pins the object so that its address cannot be reused within the
// run (the shadow map is dropped with the Sim).
func (rs *raceState) keepAlive(p unsafe.Pointer) { rs.keep[p] = struct{}{} }

// keepMap pins a map for the run: its identity is the address of its header.
func (rs *raceState) keepMap(id unsafe.Pointer, m any) {
	if _, ok := rs.maps[id]; !ok {
		rs.maps[id] = m
	}
}

func vcGet(vc []uint32, i int) uint32 {
	if i < len(vc) {
		return vc[i]
	}
	return 0
}

func vcJoin(dst, src []uint32) []uint32 {
	for len(dst) < len(src) {
		dst = append(dst, 0)
	}
	for i, v := range src {
		if v > dst[i] {
			dst[i] = v
		}
	}
	return dst
}

func (rs *raceState) fork(sim *Sim, parent int, t *Task) {
	if parent >= 0 {
		p := sim.tasks[parent]
		t.vc = append([]uint32(nil), p.vc...)
		rs.tick(p)
	}
	for len(t.vc) <= t.ID {
		t.vc = append(t.vc, 0)
	}
	t.vc[t.ID] = 1
}

func (rs *raceState) tick(t *Task) {
	for len(t.vc) <= t.ID {
		t.vc = append(t.vc, 0)
	}
	t.vc[t.ID]++
}

func (rs *raceState) taskEnd(t *Task) {}

// join: cur continues after t has finished (WaitTasks).
func (rs *raceState) join(curT, t *Task) {
	curT.vc = vcJoin(curT.vc, t.vc)
}

// acquire joins a released clock into the task.
func (rs *raceState) acquire(t *Task, vc []uint32) {
	if vc != nil {
		t.vc = vcJoin(t.vc, vc)
	}
}

// release returns into ⊔ clock(t) and advances the task's own component.
func (rs *raceState) release(t *Task, into []uint32) []uint32 {
	out := vcJoin(append([]uint32(nil), into...), t.vc)
	rs.tick(t)
	return out
}

// access checks and records one access of [addr, addr+size).
func (rs *raceState) access(sim *Sim, addr uintptr, size uintptr, write bool, site int, isMap bool) {
	t := sim.running
	if t == nil || t.killed || size == 0 {
		return
	}
	if size > 256 {
		size = 256
	}
	end := addr + size
	for w := addr &^ 7; w < end; w += 8 {
		lo, hi := uintptr(0), uintptr(8)
		if w < addr {
			lo = addr - w
		}
		if w+8 > end {
			hi = end - w
		}
		mask := uint8((1<<hi - 1) &^ (1<<lo - 1))
		rs.accessWord(sim, t, w, mask, write, site, isMap)
	}
}

func (rs *raceState) accessWord(sim *Sim, t *Task, w uintptr, mask uint8, write bool, site int, isMap bool) {
	rs.checks++
	c := rs.shadow[w]
	if c == nil {
		c = &cell{}
		rs.shadow[w] = c
	}
	myClk := vcGet(t.vc, t.ID)
	tid := int32(t.ID)
	// same-epoch fast path
	for i := range c.accs {
		r := &c.accs[i]
		if r.tid == tid && r.clk == myClk && r.mask == mask && (r.write || !write) {
			return
		}
	}
	keep := c.accs[:0]
	for _, r := range c.accs {
		overlap := r.mask&mask != 0
		ordered := r.tid == tid || r.clk <= vcGet(t.vc, int(r.tid))
		if overlap && (write || r.write) && !ordered {
			rc := Race{Addr: w, IsMap: isMap, PrevTask: int(r.tid), PrevWrite: r.write, PrevSite: int(r.site), CurTask: t.ID, CurWrite: write, CurSite: site, Step: sim.step}
			if cl := rc.Class(); !rs.seen[cl] {
				rs.seen[cl] = true
				rs.races = append(rs.races, rc)
				sim.tracef("RACE: %s", rc.String())
			}
		}
		// forget records this access supersedes: same bytes (subset), ordered
		// before this access, and not weaker than it
		if r.mask&^mask == 0 && ordered && (write || !r.write) {
			continue
		}
		keep = append(keep, r)
	}
	c.accs = append(keep, accRec{mask: mask, write: write, tid: tid, clk: myClk, site: int32(site)})
	if len(c.accs) > 48 {
		// bound the cell: drop the oldest reads
		out := c.accs[:0]
		drop := len(c.accs) - 32
		for _, r := range c.accs {
			if drop > 0 && !r.write {
				drop--
				continue
			}
			out = append(out, r)
		}
		c.accs = out
	}
}
