package simrt

import (
	"sync"
	"unsafe"
)

// sync.Once is modelled: the real one holds a real mutex while f runs, and f
// may reach a scheduling point — a second task calling Do would then block
// for real and the simulation would hang.

type onceState struct {
	done    bool
	running bool
	vc      []uint32
}

// OnceDo replaces once.Do(f).
func OnceDo(o *sync.Once, f func(), site int) {
	sim := cur
	if sim == nil {
		o.Do(f)
		return
	}
	if sim.dead() {
		return
	}
	if sim.onces == nil {
		sim.onces = map[unsafe.Pointer]*onceState{}
	}
	st := sim.onces[unsafe.Pointer(o)]
	if st == nil {
		st = &onceState{}
		sim.onces[unsafe.Pointer(o)] = st
	}
	sim.schedPoint(site, "Once.Do(attempt)", nil)
	if sim.dead() {
		return
	}
	if st.done {
		sim.acq(st.vc)
		return
	}
	if st.running {
		sim.schedPoint(site, "Once.Do", func() bool { return st.done })
		if sim.dead() {
			return
		}
		sim.acq(st.vc)
		return
	}
	st.running = true
	defer func() {
		// as the real Once: done even if f panics
		st.vc = sim.myVC()
		st.done = true
		st.running = false
	}()
	f()
}
