package simrt

import (
	"sync"
	"unsafe"
)

// sync.Cond is modelled: the real Wait unlocks and re-locks c.L through the
// real Mutex methods, but instrumented code holds that mutex only in the
// simulator's model, and a real Wait would block the goroutine for real.

type condWaiter struct{ woken bool }

type condState struct{ waiters []*condWaiter }

func (sim *Sim) cond(c *sync.Cond) *condState {
	if sim.conds == nil {
		sim.conds = map[unsafe.Pointer]*condState{}
	}
	st := sim.conds[unsafe.Pointer(c)]
	if st == nil {
		st = &condState{}
		sim.conds[unsafe.Pointer(c)] = st
	}
	return st
}

func lockerUnlock(l sync.Locker, site int) {
	switch v := l.(type) {
	case *sync.Mutex:
		Unlock(v, site)
	case *sync.RWMutex:
		Unlock(v, site)
	default:
		l.Unlock()
	}
}

func lockerLock(l sync.Locker, site int) {
	switch v := l.(type) {
	case *sync.Mutex:
		Lock(v, site)
	case *sync.RWMutex:
		Lock(v, site)
	default:
		l.Lock()
	}
}

// CondWait replaces c.Wait().
func CondWait(c *sync.Cond, site int) {
	sim := cur
	if sim == nil {
		c.Wait()
		return
	}
	if sim.dead() {
		return
	}
	st := sim.cond(c)
	w := &condWaiter{}
	st.waiters = append(st.waiters, w)
	lockerUnlock(c.L, site)
	if sim.dead() {
		return
	}
	sim.schedPoint(site, "Cond.Wait", func() bool { return w.woken })
	if sim.dead() {
		return
	}
	lockerLock(c.L, site)
}

// CondSignal replaces c.Signal().
func CondSignal(c *sync.Cond, site int) {
	sim := cur
	if sim == nil {
		c.Signal()
		return
	}
	if sim.dead() {
		return
	}
	st := sim.cond(c)
	if n := len(st.waiters); n > 0 {
		i := sim.S.Draw(n, "cond-signal-which")
		st.waiters[i].woken = true
		st.waiters = append(st.waiters[:i], st.waiters[i+1:]...)
	}
	sim.schedPoint(site, "Cond.Signal", nil)
}

// CondBroadcast replaces c.Broadcast().
func CondBroadcast(c *sync.Cond, site int) {
	sim := cur
	if sim == nil {
		c.Broadcast()
		return
	}
	if sim.dead() {
		return
	}
	st := sim.cond(c)
	for _, w := range st.waiters {
		w.woken = true
	}
	st.waiters = nil
	sim.schedPoint(site, "Cond.Broadcast", nil)
}
