// Package simrt is the simulated runtime that instrumented code runs on.
//
// Exactly one task runs at any time; every synchronisation operation, every
// armed yield site and every harness seam is a scheduling point at which the
// next task is chosen by a draw on the run's choice stream. Mutexes,
// RWMutexes, WaitGroups, channels, select, timers and context deadlines used
// by instrumented code are modelled here (the real objects only serve as
// identities), so the scheduler knows the enabled set: no enabled task while
// some are unfinished is a deadlock, not a hang. The same bookkeeping feeds a
// vector-clock happens-before race checker (race.go).
//
// When no simulation is active (cur == nil) every entry point falls through
// to the real primitive, so instrumented packages behave as the originals.
package simrt

import (
	"fmt"
	"runtime"
	"runtime/debug"
	"sort"
	"strings"
	"unsafe"

	"verifsim/simrt/choice"
)

// cur is the active simulation. Set by Run for its duration.
var cur *Sim

// Active reports whether a simulation is running.
func Active() bool { return cur != nil }

// Strategy of the scheduler.
const (
	StratRandom = iota // uniform among enabled tasks at every scheduling point
	StratSticky        // keep the current task with high probability
	StratPCT           // random priorities with a few priority change points
	numStrategies
)

// Config of one simulated run (drawn by the harness from the choice stream).
type Config struct {
	Strategy     int
	Stickiness   int // StratSticky: stay unless Draw(Stickiness)==Stickiness-1
	PCTDepth     int // StratPCT: number of change points + 1
	PCTHorizon   int // StratPCT: change points are drawn below this step count
	YieldBudget  int // armed yield sites passed between forced scheduling points; 0 = never preempt at yields
	YieldDen     int // a yield site is armed iff hash(site,salt)%YieldDen == 0 (1 = all)
	YieldSalt    uint64
	MaxSteps     int64 // scheduling points before the run is cut (reported as step-bound)
	Race         bool  // happens-before race checking of instrumented accesses
	ShuffleMaps  bool  // draw a permutation for every instrumented map range (false: sorted order)
	StallsMuted  bool  // draw stall faults as configured but add no time
	FreezeClock  bool  // virtual time never advances through yields or stalls (same draws, same schedule): used to attribute a violation to the clock
	StallEvery   int   // a clock stall fault is considered at a scheduling point with probability 1/StallEvery (0 = off)
	CostPerYield int64 // virtual ns added per yield site passed
	Trace        bool
}

// TaskState values.
const (
	tsRunnable = iota
	tsBlocked
	tsDone
)

// Task is a simulated goroutine.
type Task struct {
	ID          int
	Name        string
	gate        chan struct{}
	state       int
	ready       func() bool // when blocked: may the task proceed?
	blockOn     string      // description of what it waits for
	blockSite   int
	killed      bool
	exited      chan struct{}
	prio        int
	vc          []uint32 // vector clock (race.go)
	parent      int
	spawnSite   int
	held        int // write locks currently held (Mutex.Lock, RWMutex.Lock)
	heldAtPanic int // most write locks held when a deferred unlock ran during panic unwinding
	panicVal    any
	panicStack  string
	// IsCaller marks tasks whose being blocked forever counts as deadlock
	// (root and harness-level callers); library-internal goroutines that are
	// merely leaked are reported separately.
	IsCaller bool
}

// PanicInfo describes a panic that escaped a task.
type PanicInfo struct {
	Task  int
	Name  string
	Value string
	Stack string
	// Fault is set when the panic was a memory fault (frozen-memory trap).
	Fault     bool
	FaultAddr uintptr
	// LocksHeld is the number of (write) locks the task held when it panicked.
	LocksHeld int
}

// Report is the outcome of a run.
type Report struct {
	Steps        int64
	Switches     int64
	SchedHash    uint64
	VirtualNS    int64
	Tasks        int
	Panics       []PanicInfo
	Deadlock     string // non-empty: description (every blocked task with its site)
	StepBound    bool
	Leaked       []string // tasks still blocked when all callers had finished
	Races        []Race
	Trace        []string
	Counters     map[string]int64
	Unmodelled   []string
	YieldsPassed int64
}

// Sim is one simulated execution.
type Sim struct {
	S   *choice.Stream
	Cfg Config

	tasks   []*Task
	running *Task
	step    int64
	now     int64
	done    chan struct{} // closed when the run is over
	over    bool

	yieldCountdown int
	pctChange      []int64

	mus      map[unsafe.Pointer]*muState
	rws      map[unsafe.Pointer]*rwState
	wgs      map[unsafe.Pointer]*wgState
	chans    map[unsafe.Pointer]*chanState
	pools    map[unsafe.Pointer]*poolState
	onces    map[unsafe.Pointer]*onceState
	atomics  map[unsafe.Pointer]*atomicState
	conds    map[unsafe.Pointer]*condState
	keep     []any // keeps identities alive for the duration of the run
	timers   []*timer
	timerSeq int

	race *raceState
	rep  Report
	// OnStep, when set, is called at every scheduling point before the choice
	// (harness invariants / drawn fingerprints). It must not block.
	OnStep func(step int64)
}

type schedKill struct{}

// New prepares a simulation.
func New(s *choice.Stream, cfg Config) *Sim {
	if cfg.MaxSteps == 0 {
		cfg.MaxSteps = 200000
	}
	if cfg.Stickiness < 2 {
		cfg.Stickiness = 8
	}
	if cfg.YieldDen < 1 {
		cfg.YieldDen = 1
	}
	sim := &Sim{S: s, Cfg: cfg, done: make(chan struct{}),
		mus: map[unsafe.Pointer]*muState{}, rws: map[unsafe.Pointer]*rwState{}, wgs: map[unsafe.Pointer]*wgState{}, chans: map[unsafe.Pointer]*chanState{}}
	sim.rep.Counters = map[string]int64{}
	if cfg.Race && len(unmodelled) > 0 {
		// The instrumented packages use synchronisation this runtime does not
		// model (sync/atomic, sync.Cond, sync.Map, timers): order established
		// through it would be invisible and accesses ordered by it would be
		// reported as races. The race oracle is switched off for the run
		// (result, panic and deadlock oracles are unaffected).
		sim.Cfg.Race = false
		cfg.Race = false
		sim.rep.Counters["race_oracle_degraded_unmodelled_synchronisation"] = 1
	}
	if cfg.Race {
		sim.race = newRaceState()
	}
	sim.yieldCountdown = cfg.YieldBudget
	return sim
}

// DrawConfig draws a swarm-style scheduler configuration.
func DrawConfig(s *choice.Stream) Config {
	var c Config
	c.Strategy = s.Pick([]int{3, 4, 3}, "strategy")
	c.Stickiness = []int{2, 4, 16, 64}[s.Draw(4, "stickiness")]
	c.PCTDepth = 1 + s.Draw(3, "pct-depth")
	c.PCTHorizon = []int{40, 400, 4000}[s.Draw(3, "pct-horizon")]
	c.YieldBudget = []int{0, 1, 8, 64, 512}[s.Draw(5, "yield-budget")]
	c.YieldDen = []int{1, 2, 8}[s.Draw(3, "yield-den")]
	c.YieldSalt = uint64(s.Draw(1<<16, "yield-salt"))
	c.CostPerYield = []int64{10, 100, 1000}[s.Draw(3, "cost")]
	c.ShuffleMaps = s.Draw(4, "shuffle-maps") != 0
	return c
}

func (c Config) String() string {
	return fmt.Sprintf("strategy=%s stickiness=%d pct=%d/%d yield_budget=%d yield_den=%d cost=%dns shuffle_maps=%v race=%v stall_every=%d",
		[]string{"random", "sticky", "pct"}[c.Strategy], c.Stickiness, c.PCTDepth, c.PCTHorizon, c.YieldBudget, c.YieldDen, c.CostPerYield, c.ShuffleMaps, c.Race, c.StallEvery)
}

// Run executes root as task 0 and returns when every task has finished, or
// the run deadlocked, panicked or hit the step bound. It must be called from
// a goroutine that is not itself a task; only one Run may be active.
func (sim *Sim) Run(root func()) *Report {
	if cur != nil {
		panic("simrt: nested Run")
	}
	cur = sim
	defer func() { cur = nil }()
	if sim.Cfg.Strategy == StratPCT {
		for i := 1; i < sim.Cfg.PCTDepth; i++ {
			sim.pctChange = append(sim.pctChange, int64(sim.S.Draw(sim.Cfg.PCTHorizon, "pct-change-point")))
		}
	}
	t := sim.newTask("root", root, -1, 0)
	t.IsCaller = true
	sim.running = t
	t.gate <- struct{}{}
	<-sim.done
	// unwind whatever is still parked
	for _, t := range sim.tasks {
		if t.state != tsDone {
			t.killed = true
			sim.running = t
			t.gate <- struct{}{}
			<-t.exited
		}
	}
	sim.running = nil
	sim.rep.Steps = sim.step
	sim.rep.VirtualNS = sim.now
	sim.rep.Tasks = len(sim.tasks)
	if sim.race != nil {
		sim.rep.Races = sim.race.races
	}
	return &sim.rep
}

func (sim *Sim) newTask(name string, fn func(), parent int, site int) *Task {
	t := &Task{ID: len(sim.tasks), Name: name, gate: make(chan struct{}, 1), exited: make(chan struct{}), parent: parent, spawnSite: site}
	if sim.Cfg.Strategy == StratPCT {
		t.prio = 1 + sim.S.Draw(1<<16, "pct-prio")
	}
	sim.tasks = append(sim.tasks, t)
	if sim.race != nil {
		sim.race.fork(sim, parent, t)
	}
	go func() {
		defer close(t.exited)
		<-t.gate
		if t.killed {
			t.state = tsDone
			return
		}
		defer func() {
			if t.killed {
				// unwinding after the run ended; nothing to record
				t.state = tsDone
				return
			}
			if p := recover(); p != nil {
				sim.recordPanic(t, p)
			}
			sim.finish(t)
		}()
		debug.SetPanicOnFault(true)
		fn()
	}()
	return t
}

func (sim *Sim) recordPanic(t *Task, p any) {
	pi := PanicInfo{Task: t.ID, Name: t.Name, Value: fmt.Sprint(p), Stack: string(debug.Stack()), LocksHeld: t.held}
	if t.heldAtPanic > pi.LocksHeld {
		pi.LocksHeld = t.heldAtPanic
	}
	if re, ok := p.(runtime.Error); ok {
		if ae, ok := re.(interface{ Addr() uintptr }); ok {
			pi.Fault = true
			pi.FaultAddr = ae.Addr()
		}
	}
	sim.rep.Panics = append(sim.rep.Panics, pi)
	sim.tracef("task %d (%s) PANIC: %v", t.ID, t.Name, p)
}

// finish is called on the task's own goroutine when its function returned or
// panicked.
func (sim *Sim) finish(t *Task) {
	t.state = tsDone
	if sim.race != nil {
		sim.race.taskEnd(t)
	}
	if len(sim.rep.Panics) > 0 {
		// a panic in any goroutine kills a real process: the run ends here
		sim.end()
		return
	}
	sim.tracef("task %d (%s) done", t.ID, t.Name)
	next := sim.pick(nil)
	if next == nil {
		sim.end()
		return
	}
	sim.switchTo(next)
}

func (sim *Sim) end() {
	if !sim.over {
		sim.over = true
		close(sim.done)
	}
}

// Current returns the running task (nil outside tasks).
func (sim *Sim) Current() *Task { return sim.running }

// Now returns virtual nanoseconds since the epoch of the run.
func (sim *Sim) Now() int64 { return sim.now }

// Step returns the number of scheduling points so far.
func (sim *Sim) Step() int64 { return sim.step }

func (sim *Sim) tracef(f string, a ...any) {
	if sim.Cfg.Trace {
		sim.rep.Trace = append(sim.rep.Trace, fmt.Sprintf("[step %d t=%dns] ", sim.step, sim.now)+fmt.Sprintf(f, a...))
	}
}

// Tracef lets harnesses add lines to the step trace.
func (sim *Sim) Tracef(f string, a ...any) { sim.tracef(f, a...) }

// Count adds to a named counter of the report.
func (sim *Sim) Count(name string, n int64) { sim.rep.Counters[name] += n }

// enabled returns the tasks that may run now, the current task first.
func (sim *Sim) enabled(curT *Task) []*Task {
	var out []*Task
	if curT != nil && curT.state != tsDone && (curT.state == tsRunnable || curT.ready()) {
		out = append(out, curT)
	}
	for _, t := range sim.tasks {
		if t == curT || t.state == tsDone {
			continue
		}
		if t.state == tsRunnable || t.ready() {
			out = append(out, t)
		}
	}
	return out
}

// pick chooses the next task to run (nil: none enabled). It also fires
// timers, advances the clock when idle and detects deadlock.
func (sim *Sim) pick(curT *Task) *Task {
	for {
		sim.fireTimers()
		en := sim.enabled(curT)
		if len(en) == 0 {
			if sim.advanceToNextTimer() {
				continue
			}
			sim.noneEnabled()
			return nil
		}
		return sim.choose(en, curT)
	}
}

func (sim *Sim) choose(en []*Task, curT *Task) *Task {
	if len(en) == 1 {
		return en[0]
	}
	curEnabled := curT != nil && en[0] == curT
	switch sim.Cfg.Strategy {
	case StratSticky:
		if curEnabled {
			if sim.S.Draw(sim.Cfg.Stickiness, "sched-stay") < sim.Cfg.Stickiness-1 {
				return curT
			}
			return en[1+sim.S.Draw(len(en)-1, "sched-other")]
		}
		return en[sim.S.Draw(len(en), "sched")]
	case StratPCT:
		for _, cp := range sim.pctChange {
			if cp == sim.step && curEnabled {
				curT.prio = -int(sim.step) // lowest so far
			}
		}
		best := en[0]
		for _, t := range en[1:] {
			if t.prio > best.prio || (t.prio == best.prio && t.ID < best.ID) {
				best = t
			}
		}
		return best
	default:
		return en[sim.S.Draw(len(en), "sched")]
	}
}

func (sim *Sim) noneEnabled() {
	var blockedCallers, blocked []string
	for _, t := range sim.tasks {
		if t.state == tsDone {
			continue
		}
		d := fmt.Sprintf("task %d (%s) blocked on %s at %s", t.ID, t.Name, t.blockOn, SiteName(t.blockSite))
		blocked = append(blocked, d)
		if t.IsCaller {
			blockedCallers = append(blockedCallers, d)
		}
	}
	if len(blockedCallers) > 0 {
		sim.rep.Deadlock = strings.Join(blocked, "; ")
		sim.tracef("DEADLOCK: %s", sim.rep.Deadlock)
	} else {
		sim.rep.Leaked = blocked
		if len(blocked) > 0 {
			sim.tracef("leaked tasks: %s", strings.Join(blocked, "; "))
		}
	}
}

// switchTo hands the CPU to next; called on the goroutine of the task that
// stops running (or has finished).
func (sim *Sim) switchTo(next *Task) {
	prev := sim.running
	if prev != next {
		sim.rep.Switches++
		sim.rep.SchedHash = (sim.rep.SchedHash ^ uint64(next.ID+1) ^ uint64(sim.step)<<20) * 1099511628211
	}
	sim.running = next
	next.state = tsRunnable
	next.ready = nil
	next.gate <- struct{}{}
}

// schedPoint is a scheduling point of the running task. If block is non-nil
// the task cannot proceed until block() is true.
func (sim *Sim) schedPoint(site int, what string, block func() bool) {
	t := sim.running
	if t == nil {
		panic("simrt: scheduling point outside a task: " + what)
	}
	if t.killed {
		return // deferred calls of a task that is being unwound
	}
	sim.step++
	if sim.OnStep != nil {
		sim.OnStep(sim.step)
	}
	if sim.step > sim.Cfg.MaxSteps {
		sim.rep.StepBound = true
		sim.tracef("step bound reached")
		sim.end()
		sim.park(t)
		return
	}
	if sim.Cfg.StallEvery > 0 && sim.S.Draw(sim.Cfg.StallEvery, "stall?") == 0 {
		d := []int64{1e6, 50e6, 400e6, 1500e6, 3600e9}[sim.S.Draw(5, "stall-len")]
		if sim.Cfg.StallsMuted || sim.Cfg.FreezeClock {
			d = 0
		}
		sim.now += d
		sim.rep.Counters["fault_clock_stall"]++
		if d >= 1e9 {
			sim.rep.Counters["fault_clock_stall_ge_1s"]++
		}
		sim.tracef("FAULT clock stall %dms while task %d is at %s", d/1e6, t.ID, SiteName(site))
	}
	if block != nil {
		t.state = tsBlocked
		t.ready = block
		t.blockOn = what
		t.blockSite = site
	} else {
		t.state = tsRunnable
	}
	if sim.Cfg.Trace {
		sim.tracef("task %d (%s) at %s: %s", t.ID, t.Name, SiteName(site), what)
	}
	next := sim.pick(t)
	if next == nil {
		// deadlock (or only leaked tasks remain while this one is blocked)
		sim.end()
		sim.park(t)
		return
	}
	if next == t {
		t.state = tsRunnable
		t.ready = nil
		return
	}
	sim.switchTo(next)
	sim.park(t)
}

// park waits until the task is released again.
func (sim *Sim) park(t *Task) {
	<-t.gate
	if t.killed {
		runtime.Goexit()
	}
}

// ---------------------------------------------------------------------------
// Entry points used by instrumented code and harnesses.

// Go starts fn as a new simulated task (a real goroutine outside simulation).
func Go(site int, fn func()) {
	sim := cur
	if sim == nil {
		go fn()
		return
	}
	if sim.running != nil && sim.running.killed {
		return
	}
	parent := -1
	if sim.running != nil {
		parent = sim.running.ID
	}
	t := sim.newTask(fmt.Sprintf("go@%s", SiteName(site)), fn, parent, site)
	sim.tracef("task %d spawns task %d at %s", parent, t.ID, SiteName(site))
	sim.schedPoint(site, "go", nil)
}

// Spawn starts a harness-level caller task.
func (sim *Sim) Spawn(name string, fn func()) *Task {
	parent := -1
	if sim.running != nil {
		parent = sim.running.ID
	}
	t := sim.newTask(name, fn, parent, 0)
	t.IsCaller = true
	sim.tracef("task %d spawns caller task %d (%s)", parent, t.ID, name)
	return t
}

// Point is an explicit scheduling point (harness seams: reader, tracer).
func Point(what string) {
	sim := cur
	if sim == nil || sim.running == nil {
		return
	}
	sim.schedPoint(0, what, nil)
}

// WaitTasks blocks the calling task until all given tasks are done.
func (sim *Sim) WaitTasks(ts []*Task) {
	sim.schedPoint(0, "wait-tasks", func() bool {
		for _, t := range ts {
			if t.state != tsDone {
				return false
			}
		}
		return true
	})
	if sim.race != nil {
		for _, t := range ts {
			sim.race.join(sim.running, t)
		}
	}
}

// Yield is inserted at function entries and loop heads of instrumented code.
func Yield(site int) {
	sim := cur
	if sim == nil {
		return
	}
	sim.yield(site)
}

func (sim *Sim) yield(site int) {
	if sim.running == nil {
		return
	}
	sim.rep.YieldsPassed++
	if !sim.Cfg.FreezeClock {
		sim.now += sim.Cfg.CostPerYield
	}
	if sim.Cfg.YieldBudget == 0 {
		return
	}
	if sim.Cfg.YieldDen > 1 && (uint64(site)*0x9e3779b97f4a7c15^sim.Cfg.YieldSalt)>>7%uint64(sim.Cfg.YieldDen) != 0 {
		return
	}
	sim.yieldCountdown--
	if sim.yieldCountdown > 0 {
		return
	}
	sim.yieldCountdown = 1 + sim.S.Draw(2*sim.Cfg.YieldBudget, "yield-gap")
	sim.schedPoint(site, "yield", nil)
}

// ---------------------------------------------------------------------------
// site table

var siteNames []string

// RegisterSites is called by the generated site table.
func RegisterSites(names []string) { siteNames = names }

// SiteName renders a site id as file:line.
func SiteName(site int) string {
	if site > 0 && site < len(siteNames) {
		return siteNames[site]
	}
	if site == 0 {
		return "harness"
	}
	return fmt.Sprintf("site#%d", site)
}

// unmodelled constructs found by the instrumenter (set by generated code).
var unmodelled []string

func RegisterUnmodelled(u []string) { unmodelled = u }
func Unmodelled() []string          { return unmodelled }

// sortedTaskIDs is a helper for deterministic reports.
func sortedTaskIDs(m map[int]bool) []int {
	var out []int
	for k := range m {
		out = append(out, k)
	}
	sort.Ints(out)
	return out
}
