package simrt

import (
	"fmt"
	"reflect"
	"unsafe"
)

// Channels created by instrumented code (MakeChan) are fully modelled: the
// real channel object is only an identity, values travel through chanState.
// Channels that come from elsewhere ("foreign": nil channels, channels made
// outside the simulation) are polled with real non-blocking operations at
// scheduling points.

type chanWaiter struct {
	task *Task
	val  any
	vc   []uint32
	done bool // completed by the other party
	ok   bool // receive: value (true) or closed (false)
	sel  *selState
	idx  int // case index within the select
}

type selState struct {
	done bool
	idx  int
	val  any
	ok   bool
	vc   []uint32
}

type bufItem struct {
	val any
	vc  []uint32
}

type chanState struct {
	cap     int
	buf     []bufItem
	closed  bool
	closeVC []uint32
	sendq   []*chanWaiter
	recvq   []*chanWaiter
	// recvVCs holds the clocks of completed receives that later sends into a
	// buffered channel synchronise with (k-th receive before (k+cap)-th send).
	recvVCs [][]uint32
	site    int
}

func chanID[T any](ch chan T) unsafe.Pointer    { return *(*unsafe.Pointer)(unsafe.Pointer(&ch)) }
func rchanID[T any](ch <-chan T) unsafe.Pointer { return *(*unsafe.Pointer)(unsafe.Pointer(&ch)) }
func schanID[T any](ch chan<- T) unsafe.Pointer { return *(*unsafe.Pointer)(unsafe.Pointer(&ch)) }

// MakeChan replaces make(chan T, n).
func MakeChan[T any](n int, site int) chan T {
	ch := make(chan T, n)
	sim := cur
	if sim == nil || sim.dead() {
		return ch
	}
	sim.chans[chanID(ch)] = &chanState{cap: n, site: site}
	sim.keep = append(sim.keep, ch)
	return ch
}

func (w *chanWaiter) live() bool { return !w.done && (w.sel == nil || !w.sel.done) }

func prune(q []*chanWaiter) []*chanWaiter {
	out := q[:0]
	for _, w := range q {
		if w.live() {
			out = append(out, w)
		}
	}
	return out
}

func (sim *Sim) completeWaiter(w *chanWaiter, val any, ok bool, vc []uint32) {
	w.done = true
	w.val = val
	w.ok = ok
	w.vc = vc
	if w.sel != nil {
		w.sel.done = true
		w.sel.idx = w.idx
		w.sel.val = val
		w.sel.ok = ok
		w.sel.vc = vc
	}
}

func (sim *Sim) myVC() []uint32 {
	if sim.race == nil {
		return nil
	}
	return sim.race.release(sim.running, nil)
}

func (sim *Sim) acq(vc []uint32) {
	if sim.race != nil && vc != nil {
		sim.race.acquire(sim.running, vc)
	}
}

// trySend attempts a send without blocking. It returns true when the send
// completed.
func (sim *Sim) trySend(c *chanState, v any) bool {
	if c.closed {
		panic("send on closed channel")
	}
	c.recvq = prune(c.recvq)
	if len(c.recvq) > 0 {
		// hand over directly to a waiting receiver (buffer is empty then)
		i := sim.S.Draw(len(c.recvq), "chan-wake-receiver")
		w := c.recvq[i]
		c.recvq = append(c.recvq[:i], c.recvq[i+1:]...)
		recvVC := w.vc
		sim.completeWaiter(w, v, true, sim.myVC())
		if c.cap == 0 {
			// unbuffered: the receive is synchronised before the send completes
			sim.acq(recvVC)
		}
		return true
	}
	if len(c.buf) < c.cap {
		if len(c.recvVCs) > 0 {
			sim.acq(c.recvVCs[0])
			c.recvVCs = c.recvVCs[1:]
		}
		c.buf = append(c.buf, bufItem{v, sim.myVC()})
		return true
	}
	return false
}

// tryRecv attempts a receive without blocking.
func (sim *Sim) tryRecv(c *chanState) (val any, ok bool, done bool) {
	if len(c.buf) > 0 {
		it := c.buf[0]
		c.buf = c.buf[1:]
		sim.acq(it.vc)
		if c.cap > 0 {
			c.recvVCs = append(c.recvVCs, sim.myVC())
			if len(c.recvVCs) > c.cap {
				c.recvVCs = c.recvVCs[1:]
			}
		}
		// a sender blocked on the full buffer can now complete
		c.sendq = prune(c.sendq)
		if len(c.sendq) > 0 {
			i := sim.S.Draw(len(c.sendq), "chan-wake-sender")
			w := c.sendq[i]
			c.sendq = append(c.sendq[:i], c.sendq[i+1:]...)
			c.buf = append(c.buf, bufItem{w.val, w.vc})
			sim.completeWaiter(w, nil, true, sim.myVC())
		}
		return it.val, true, true
	}
	c.sendq = prune(c.sendq)
	if len(c.sendq) > 0 {
		i := sim.S.Draw(len(c.sendq), "chan-wake-sender")
		w := c.sendq[i]
		c.sendq = append(c.sendq[:i], c.sendq[i+1:]...)
		sim.acq(w.vc)
		val := w.val
		sim.completeWaiter(w, nil, true, sim.myVC())
		return val, true, true
	}
	if c.closed {
		sim.acq(c.closeVC)
		return nil, false, true
	}
	return nil, false, false
}

// Send replaces ch <- v.
func Send[T any](ch chan<- T, v T, site int) {
	sim := cur
	if sim == nil {
		ch <- v
		return
	}
	if sim.dead() {
		return
	}
	c := sim.chans[schanID(ch)]
	if c == nil {
		sim.foreignSend(reflect.ValueOf(ch), reflect.ValueOf(v), site)
		return
	}
	sim.schedPoint(site, "chan send(attempt)", nil)
	if sim.dead() {
		return
	}
	if sim.trySend(c, v) {
		return
	}
	w := &chanWaiter{task: sim.running, val: v, vc: sim.myVC()}
	c.sendq = append(c.sendq, w)
	sim.schedPoint(site, "chan send", func() bool { return w.done || c.closed })
	if sim.dead() {
		return
	}
	if !w.done {
		// woken by close
		w.done = true
		panic("send on closed channel")
	}
	sim.acq(w.vc)
}

// Recv replaces <-ch.
func Recv[T any](ch <-chan T, site int) T {
	v, _ := Recv2(ch, site)
	return v
}

// Recv2 replaces v, ok := <-ch.
func Recv2[T any](ch <-chan T, site int) (T, bool) {
	var zero T
	sim := cur
	if sim == nil {
		v, ok := <-ch
		return v, ok
	}
	if sim.dead() {
		return zero, false
	}
	c := sim.chans[rchanID(ch)]
	if c == nil {
		v, ok := sim.foreignRecv(reflect.ValueOf(ch), site)
		if !ok || !v.IsValid() {
			return zero, ok
		}
		return v.Interface().(T), ok
	}
	sim.schedPoint(site, "chan recv(attempt)", nil)
	if sim.dead() {
		return zero, false
	}
	if val, ok, done := sim.tryRecv(c); done {
		if !ok {
			return zero, false
		}
		return cast[T](val), true
	}
	w := &chanWaiter{task: sim.running, vc: sim.myVC()}
	c.recvq = append(c.recvq, w)
	sim.schedPoint(site, "chan recv", func() bool { return w.done || c.closed })
	if sim.dead() {
		return zero, false
	}
	if !w.done {
		w.done = true
		sim.acq(c.closeVC)
		return zero, false
	}
	sim.acq(w.vc)
	return cast[T](w.val), true
}

// Close replaces close(ch).
func Close[T any](ch chan<- T, site int) {
	sim := cur
	if sim == nil {
		close(ch)
		return
	}
	if sim.dead() {
		return
	}
	id := schanID(ch)
	if id == nil {
		panic("close of nil channel")
	}
	c := sim.chans[id]
	if c == nil {
		sim.schedPoint(site, "close(foreign chan)", nil)
		close(ch)
		return
	}
	sim.schedPoint(site, "close(attempt)", nil)
	if sim.dead() {
		return
	}
	if c.closed {
		panic("close of closed channel")
	}
	c.closed = true
	c.closeVC = sim.myVC()
	sim.tracef("task %d closed channel made at %s (%d blocked senders, %d blocked receivers)", sim.running.ID, SiteName(c.site), len(prune(c.sendq)), len(prune(c.recvq)))
}

// ChanLen replaces len(ch); ChanCap replaces cap(ch).
func ChanLen[T any](ch chan T) int {
	sim := cur
	if sim != nil && !sim.dead() {
		if c := sim.chans[chanID(ch)]; c != nil {
			return len(c.buf)
		}
	}
	return len(ch)
}

func ChanCap[T any](ch chan T) int { return cap(ch) }

// RangeChan supports `for v := range ch`: it is Recv2.
func RangeChan[T any](ch <-chan T, site int) (T, bool) { return Recv2(ch, site) }

// ---------------------------------------------------------------------------
// foreign channels

func (sim *Sim) foreignRecv(ch reflect.Value, site int) (reflect.Value, bool) {
	var got reflect.Value
	var ok, done bool
	poll := func() bool {
		if done {
			return true
		}
		if ch.IsNil() {
			return false
		}
		chosen, v, rok := reflect.Select([]reflect.SelectCase{{Dir: reflect.SelectRecv, Chan: ch}, {Dir: reflect.SelectDefault}})
		if chosen == 0 {
			got, ok, done = v, rok, true
			return true
		}
		return false
	}
	sim.schedPoint(site, "recv(foreign chan)", poll)
	return got, ok
}

func (sim *Sim) foreignSend(ch, v reflect.Value, site int) {
	done := false
	poll := func() bool {
		if done {
			return true
		}
		if ch.IsNil() {
			return false
		}
		chosen, _, _ := reflect.Select([]reflect.SelectCase{{Dir: reflect.SelectSend, Chan: ch, Send: v}, {Dir: reflect.SelectDefault}})
		if chosen == 0 {
			done = true
		}
		return done
	}
	sim.schedPoint(site, "send(foreign chan)", poll)
}

// ---------------------------------------------------------------------------
// select

// SelCase is one case of a rewritten select statement.
type SelCase struct {
	dir   int // 0 recv, 1 send, 2 default
	id    unsafe.Pointer
	rch   reflect.Value // foreign channels
	val   any
	isNil bool
}

// Sel is the outcome of Select.
type Sel struct {
	Index int
	OK    bool
	val   any
}

func CaseRecv[T any](ch <-chan T) SelCase {
	return SelCase{dir: 0, id: rchanID(ch), rch: reflect.ValueOf(ch), isNil: ch == nil}
}

func CaseSend[T any](ch chan<- T, v T) SelCase {
	return SelCase{dir: 1, id: schanID(ch), rch: reflect.ValueOf(ch), val: v, isNil: ch == nil}
}

func CaseDefault() SelCase { return SelCase{dir: 2} }

// SelVal extracts the received value of the chosen receive case; ch only
// provides the element type.
func SelVal[T any](ch <-chan T, s Sel) T {
	var zero T
	if s.val == nil {
		return zero
	}
	if rv, ok := s.val.(reflect.Value); ok {
		if !rv.IsValid() {
			return zero
		}
		return rv.Interface().(T)
	}
	return cast[T](s.val)
}

func cast[T any](v any) T {
	if v == nil {
		var z T
		return z
	}
	return v.(T)
}

// Select replaces a select statement; it returns the index of the chosen case
// in source order.
func Select(site int, cases ...SelCase) Sel {
	sim := cur
	if sim == nil {
		return realSelect(cases)
	}
	if sim.dead() {
		return Sel{Index: -1}
	}
	sim.schedPoint(site, "select(attempt)", nil)
	if sim.dead() {
		return Sel{Index: -1}
	}
	defIdx := -1
	for i, c := range cases {
		if c.dir == 2 {
			defIdx = i
		}
	}
	// readiness of one case (without side effects for modelled channels)
	ready := func(i int) bool {
		c := cases[i]
		if c.dir == 2 || c.isNil {
			return false
		}
		m := sim.chans[c.id]
		if m == nil {
			return false // foreign: handled by polling below
		}
		if c.dir == 0 {
			m.sendq = prune(m.sendq)
			return len(m.buf) > 0 || len(m.sendq) > 0 || m.closed
		}
		m.recvq = prune(m.recvq)
		return m.closed || len(m.buf) < m.cap || len(m.recvq) > 0
	}
	var foreignGot *Sel
	pollForeign := func() bool {
		if foreignGot != nil {
			return true
		}
		var rc []reflect.SelectCase
		var idx []int
		for i, c := range cases {
			if c.dir == 2 || c.isNil || sim.chans[c.id] != nil {
				continue
			}
			if c.dir == 0 {
				rc = append(rc, reflect.SelectCase{Dir: reflect.SelectRecv, Chan: c.rch})
			} else {
				rc = append(rc, reflect.SelectCase{Dir: reflect.SelectSend, Chan: c.rch, Send: reflect.ValueOf(c.val)})
			}
			idx = append(idx, i)
		}
		if len(rc) == 0 {
			return false
		}
		rc = append(rc, reflect.SelectCase{Dir: reflect.SelectDefault})
		chosen, v, ok := reflect.Select(rc)
		if chosen == len(rc)-1 {
			return false
		}
		foreignGot = &Sel{Index: idx[chosen], OK: ok, val: v}
		return true
	}
	perform := func(i int) Sel {
		c := cases[i]
		m := sim.chans[c.id]
		if c.dir == 0 {
			val, ok, _ := sim.tryRecv(m)
			return Sel{Index: i, OK: ok, val: val}
		}
		sim.trySend(m, c.val) // panics when closed, as the real select does
		return Sel{Index: i, OK: true}
	}
	var rdy []int
	for i := range cases {
		if ready(i) {
			rdy = append(rdy, i)
		}
	}
	if pollForeign() {
		return *foreignGot
	}
	if len(rdy) > 0 {
		// Go picks uniformly among ready cases: one more seeded choice
		return perform(rdy[sim.S.Draw(len(rdy), "select-case")])
	}
	if defIdx >= 0 {
		return Sel{Index: defIdx}
	}
	// block on all cases
	st := &selState{}
	var ws []*chanWaiter
	for i, c := range cases {
		if c.isNil {
			continue
		}
		m := sim.chans[c.id]
		if m == nil {
			continue
		}
		w := &chanWaiter{task: sim.running, val: c.val, vc: sim.myVC(), sel: st, idx: i}
		ws = append(ws, w)
		if c.dir == 0 {
			m.recvq = append(m.recvq, w)
		} else {
			m.sendq = append(m.sendq, w)
		}
	}
	closedIdx := -1
	sim.schedPoint(site, "select", func() bool {
		if st.done {
			return true
		}
		for i, c := range cases {
			if c.isNil || c.dir == 2 {
				continue
			}
			if m := sim.chans[c.id]; m != nil && m.closed {
				closedIdx = i
				return true
			}
		}
		return pollForeign()
	})
	if sim.dead() {
		return Sel{Index: -1}
	}
	if st.done {
		sim.acq(st.vc)
		return Sel{Index: st.idx, OK: st.ok, val: st.val}
	}
	st.done = true // withdraw from all queues
	if foreignGot != nil {
		return *foreignGot
	}
	c := cases[closedIdx]
	if c.dir == 1 {
		panic("send on closed channel")
	}
	sim.acq(sim.chans[c.id].closeVC)
	return Sel{Index: closedIdx, OK: false}
}

func realSelect(cases []SelCase) Sel {
	rc := make([]reflect.SelectCase, len(cases))
	for i, c := range cases {
		switch c.dir {
		case 0:
			rc[i] = reflect.SelectCase{Dir: reflect.SelectRecv, Chan: c.rch}
		case 1:
			rc[i] = reflect.SelectCase{Dir: reflect.SelectSend, Chan: c.rch, Send: reflect.ValueOf(c.val)}
		default:
			rc[i] = reflect.SelectCase{Dir: reflect.SelectDefault}
		}
	}
	chosen, v, ok := reflect.Select(rc)
	return Sel{Index: chosen, OK: ok, val: v}
}

var _ = fmt.Sprint
