package simrt

import (
	"context"
	"sort"
	"sync"
	"time"
)

// The virtual clock: time.Now in instrumented packages returns epoch+virtual
// nanoseconds, without a monotonic reading, so every comparison instrumented
// code makes is between virtual wall times.
var epoch = time.Unix(1700000000, 0)

type timer struct {
	at   int64
	seq  int
	fire func()
	dead bool
}

func (sim *Sim) addTimer(d time.Duration, fire func()) *timer {
	sim.timerSeq++
	t := &timer{at: sim.now + int64(d), seq: sim.timerSeq, fire: fire}
	sim.timers = append(sim.timers, t)
	sort.SliceStable(sim.timers, func(i, j int) bool {
		if sim.timers[i].at != sim.timers[j].at {
			return sim.timers[i].at < sim.timers[j].at
		}
		return sim.timers[i].seq < sim.timers[j].seq
	})
	return t
}

func (sim *Sim) fireTimers() {
	for len(sim.timers) > 0 && (sim.timers[0].dead || sim.timers[0].at <= sim.now) {
		t := sim.timers[0]
		sim.timers = sim.timers[1:]
		if !t.dead {
			sim.rep.Counters["timers_fired"]++
			t.fire()
		}
	}
}

func (sim *Sim) advanceToNextTimer() bool {
	for len(sim.timers) > 0 && sim.timers[0].dead {
		sim.timers = sim.timers[1:]
	}
	if len(sim.timers) == 0 {
		return false
	}
	if sim.timers[0].at > sim.now {
		sim.tracef("idle: clock jumps %dns to next timer", sim.timers[0].at-sim.now)
		sim.now = sim.timers[0].at
		sim.rep.Counters["clock_jumps_when_idle"]++
	}
	return true
}

// Now replaces time.Now.
func Now() time.Time {
	sim := cur
	if sim == nil {
		return time.Now()
	}
	sim.rep.Counters["clock_reads"]++
	return epoch.Add(time.Duration(sim.now))
}

// Since replaces time.Since.
func Since(t time.Time) time.Duration {
	if cur == nil {
		return time.Since(t)
	}
	return Now().Sub(t)
}

// Until replaces time.Until.
func Until(t time.Time) time.Duration {
	if cur == nil {
		return time.Until(t)
	}
	return t.Sub(Now())
}

// Sleep replaces time.Sleep.
func Sleep(d time.Duration, site int) {
	sim := cur
	if sim == nil {
		time.Sleep(d)
		return
	}
	if sim.dead() {
		return
	}
	woke := false
	sim.addTimer(d, func() { woke = true })
	sim.schedPoint(site, "Sleep", func() bool { return woke })
}

// After replaces time.After.
func After(d time.Duration, site int) <-chan time.Time {
	sim := cur
	if sim == nil || sim.dead() {
		return time.After(d)
	}
	ch := MakeChan[time.Time](1, site)
	c := sim.chans[chanID(ch)]
	sim.addTimer(d, func() {
		v := epoch.Add(time.Duration(sim.now))
		c.recvq = prune(c.recvq)
		if len(c.recvq) > 0 {
			w := c.recvq[0]
			c.recvq = c.recvq[1:]
			sim.completeWaiter(w, v, true, nil)
			return
		}
		c.buf = append(c.buf, bufItem{val: v})
	})
	return ch
}

// simCtx is a context whose deadline lives on the virtual clock.
type simCtx struct {
	context.Context
	mu       sync.Mutex
	done     chan struct{}
	err      error
	deadline time.Time
	hasDL    bool
	tm       *timer
	sim      *Sim
}

func (c *simCtx) Deadline() (time.Time, bool) {
	if c.hasDL {
		return c.deadline, true
	}
	return c.Context.Deadline()
}
func (c *simCtx) Done() <-chan struct{} { return c.done }
func (c *simCtx) Err() error            { return c.err }

func (c *simCtx) cancel(err error) {
	if c.err != nil {
		return
	}
	c.err = err
	if c.tm != nil {
		c.tm.dead = true
	}
	if m := c.sim.chans[chanID(c.done)]; m != nil && !m.closed {
		m.closed = true
		if c.sim.running != nil {
			m.closeVC = c.sim.myVC()
		}
	}
	close(c.done)
}

// WithTimeout replaces context.WithTimeout.
func WithTimeout(parent context.Context, d time.Duration, site int) (context.Context, context.CancelFunc) {
	sim := cur
	if sim == nil || sim.dead() {
		return context.WithTimeout(parent, d)
	}
	c := &simCtx{Context: parent, done: MakeChan[struct{}](0, site), sim: sim, hasDL: true, deadline: epoch.Add(time.Duration(sim.now) + d)}
	c.tm = sim.addTimer(d, func() {
		sim.rep.Counters["context_deadline_fired"]++
		c.cancel(context.DeadlineExceeded)
	})
	return c, func() {
		if cur == sim && !sim.over {
			c.cancel(context.Canceled)
		}
	}
}

// WithDeadline replaces context.WithDeadline.
func WithDeadline(parent context.Context, t time.Time, site int) (context.Context, context.CancelFunc) {
	sim := cur
	if sim == nil || sim.dead() {
		return context.WithDeadline(parent, t)
	}
	return WithTimeout(parent, t.Sub(epoch.Add(time.Duration(sim.now))), site)
}

// WithCancel gives harnesses a context whose cancellation is a simulated
// event.
func WithCancel(parent context.Context) (context.Context, context.CancelFunc) {
	sim := cur
	if sim == nil || sim.dead() {
		return context.WithCancel(parent)
	}
	c := &simCtx{Context: parent, done: MakeChan[struct{}](0, 0), sim: sim}
	return c, func() {
		if cur == sim && !sim.over {
			c.cancel(context.Canceled)
		}
	}
}
