module verifsim/simrt

go 1.20
