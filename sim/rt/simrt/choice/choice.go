// Package choice is the single source of nondeterminism of a simulated run.
//
// Every decision a harness or the simulated runtime takes (which task runs
// next, how a reader fragments, where a fault lands, how a map iterates, ...)
// is one Draw on one Stream. In search mode the stream is a PCG generator
// seeded from (VERIF_SEED, run index) and every value returned is recorded;
// in replay mode the recorded vector is played back (value modulo n, 0 when
// the vector is exhausted). A run is therefore a pure function of the code
// under test and the choice vector, which is what makes replay files and
// delta-debugging minimisation possible.
package choice

// Stream is not safe for concurrent use; the simulator guarantees a single
// running task at any time.
type Stream struct {
	rng        pcg
	replay     []uint32
	replayMode bool
	pos        int
	rec        []uint32
	// Trace, when non-nil, is called for every draw (replay/trace mode only;
	// it must not draw or read clocks).
	Trace func(pos int, n int, v int, label string)
	// Overrun counts draws past the end of the replay vector.
	Overrun int
	// prefix: values to play back before continuing (Rewind).
	prefix []uint32
}

// New returns a recording search stream for (seed, run).
func New(seed uint64, run uint64) *Stream {
	s := &Stream{}
	s.rng.seed(seed, run*0x9e3779b97f4a7c15+0x243f6a8885a308d3)
	return s
}

// Replay returns a stream that plays back vec.
func Replay(vec []uint32) *Stream {
	return &Stream{replay: vec, replayMode: true}
}

// Draw returns a value in [0,n). n<=1 returns 0 without consuming anything.
func (s *Stream) Draw(n int, label string) int {
	if n <= 1 {
		return 0
	}
	var v int
	if s.pos < len(s.prefix) {
		v = int(s.prefix[s.pos] % uint32(n))
	} else if s.replayMode {
		if s.pos < len(s.replay) {
			v = int(s.replay[s.pos] % uint32(n))
		} else {
			s.Overrun++
			if s.Overrun > 20000000 {
				panic("choice: runaway replay (a loop's termination depends on non-zero draws)")
			}
			v = 0
		}
	} else {
		v = int(s.rng.uint32n(uint32(n)))
	}
	s.rec = append(s.rec, uint32(v))
	if s.Trace != nil {
		s.Trace(s.pos, n, v, label)
	}
	s.pos++
	return v
}

// Bool draws true with probability num/den.
func (s *Stream) Bool(num, den int, label string) bool {
	return s.Draw(den, label) < num
}

// Pick draws an index weighted by w (all weights >= 0, sum > 0).
func (s *Stream) Pick(w []int, label string) int {
	sum := 0
	for _, x := range w {
		sum += x
	}
	v := s.Draw(sum, label)
	for i, x := range w {
		if v < x {
			return i
		}
		v -= x
	}
	return len(w) - 1
}

// Perm draws a permutation of n elements (Fisher-Yates; all-zero choices give
// the identity permutation, which is what minimisation converges to).
func (s *Stream) Perm(n int, label string) []int {
	p := make([]int, n)
	for i := range p {
		p[i] = i
	}
	for i := 0; i < n-1; i++ {
		j := i + s.Draw(n-i, label)
		p[i], p[j] = p[j], p[i]
	}
	return p
}

// Rewind restarts the stream: the values drawn so far are played back first,
// then the stream continues as before (generator or replay vector). A harness
// uses it to re-execute the identical run after changing something outside
// the choice space.
func (s *Stream) Rewind() {
	if len(s.rec) > len(s.prefix) {
		s.prefix = append([]uint32(nil), s.rec...)
	}
	s.rec = s.rec[:0]
	s.pos = 0
}

// Recorded returns the values drawn so far.
func (s *Stream) Recorded() []uint32 { return append([]uint32(nil), s.rec...) }

// Pos returns the number of draws so far.
func (s *Stream) Pos() int { return s.pos }

// pcg is a PCG-XSH-RR 64/32 generator (O'Neill); self-contained so that the
// runtime module builds at language version go1.20.
type pcg struct{ state, inc uint64 }

func (p *pcg) seed(seed, seq uint64) {
	p.state = 0
	p.inc = seq<<1 | 1
	p.next()
	p.state += seed
	p.next()
}

func (p *pcg) next() uint32 {
	old := p.state
	p.state = old*6364136223846793005 + p.inc
	xs := uint32(((old >> 18) ^ old) >> 27)
	rot := uint32(old >> 59)
	return xs>>rot | xs<<((-rot)&31)
}

// uint32n returns an unbiased value in [0,n).
func (p *pcg) uint32n(n uint32) uint32 {
	threshold := -n % n
	for {
		r := p.next()
		if r >= threshold {
			return r % n
		}
	}
}
