package simrt

import (
	"sync/atomic"
	"unsafe"
)

// The function forms of sync/atomic on integers are modelled: each is a
// scheduling point and a synchronisation operation (a write releases, a read
// acquires, per address), so code that publishes data through an atomic flag
// is not misreported by the race checker. OnAtomicWrite lets a harness react
// to the address about to be written (the C09 harness makes the page writable
// if it lies in its frozen arena: an atomically updated integer is legitimate
// shared state and holds no pointers).

// IsFrozen, when set, tells whether an address lies in memory the harness has
// made read-only. Atomic operations on such addresses are virtualised: the
// value lives in a side table (initialised from memory on first use), so the
// memory itself is never written and the write trap stays exact for every
// other store to the same page.
var IsFrozen func(addr uintptr) bool

var virtualAtomics = map[uintptr]*uint64{}

func virtualCell(p unsafe.Pointer, size int) *uint64 {
	if IsFrozen == nil || !IsFrozen(uintptr(p)) {
		return nil
	}
	c := virtualAtomics[uintptr(p)]
	if c == nil {
		c = new(uint64)
		if size == 4 {
			*c = uint64(*(*uint32)(p))
		} else {
			*c = *(*uint64)(p)
		}
		virtualAtomics[uintptr(p)] = c
	}
	return c
}

type atomicState struct{ vc []uint32 }

func (sim *Sim) atomicOp(p unsafe.Pointer, write bool, site int, what string) {
	if sim.atomics == nil {
		sim.atomics = map[unsafe.Pointer]*atomicState{}
	}
	st := sim.atomics[p]
	if st == nil {
		st = &atomicState{}
		sim.atomics[p] = st
	}
	sim.schedPoint(site, what, nil)
	if sim.dead() {
		return
	}
	if sim.race != nil {
		sim.race.acquire(sim.running, st.vc)
		if write {
			st.vc = sim.race.release(sim.running, st.vc)
		}
	}
}

func atomicPre(p unsafe.Pointer, write bool, site int, what string) {
	if sim := cur; sim != nil && !sim.dead() {
		sim.atomicOp(p, write, site, what)
	}
}

func AtomicAddInt32(p *int32, d int32, site int) int32 {
	atomicPre(unsafe.Pointer(p), true, site, "atomic.AddInt32")
	if c := virtualCell(unsafe.Pointer(p), 4); c != nil {
		v := int32(*c) + d
		*c = uint64(v)
		return v
	}
	return atomic.AddInt32(p, d)
}
func AtomicLoadInt32(p *int32, site int) int32 {
	atomicPre(unsafe.Pointer(p), false, site, "atomic.LoadInt32")
	if c := virtualCell(unsafe.Pointer(p), 4); c != nil {
		return int32(*c)
	}
	return atomic.LoadInt32(p)
}
func AtomicStoreInt32(p *int32, v int32, site int) {
	atomicPre(unsafe.Pointer(p), true, site, "atomic.StoreInt32")
	if c := virtualCell(unsafe.Pointer(p), 4); c != nil {
		*c = uint64(v)
		return
	}
	atomic.StoreInt32(p, v)
}
func AtomicSwapInt32(p *int32, v int32, site int) int32 {
	atomicPre(unsafe.Pointer(p), true, site, "atomic.SwapInt32")
	if c := virtualCell(unsafe.Pointer(p), 4); c != nil {
		old := int32(*c)
		*c = uint64(v)
		return old
	}
	return atomic.SwapInt32(p, v)
}
func AtomicCompareAndSwapInt32(p *int32, o, n int32, site int) bool {
	atomicPre(unsafe.Pointer(p), true, site, "atomic.CompareAndSwapInt32")
	if c := virtualCell(unsafe.Pointer(p), 4); c != nil {
		if int32(*c) != o {
			return false
		}
		*c = uint64(n)
		return true
	}
	return atomic.CompareAndSwapInt32(p, o, n)
}

func AtomicAddInt64(p *int64, d int64, site int) int64 {
	atomicPre(unsafe.Pointer(p), true, site, "atomic.AddInt64")
	if c := virtualCell(unsafe.Pointer(p), 8); c != nil {
		v := int64(*c) + d
		*c = uint64(v)
		return v
	}
	return atomic.AddInt64(p, d)
}
func AtomicLoadInt64(p *int64, site int) int64 {
	atomicPre(unsafe.Pointer(p), false, site, "atomic.LoadInt64")
	if c := virtualCell(unsafe.Pointer(p), 8); c != nil {
		return int64(*c)
	}
	return atomic.LoadInt64(p)
}
func AtomicStoreInt64(p *int64, v int64, site int) {
	atomicPre(unsafe.Pointer(p), true, site, "atomic.StoreInt64")
	if c := virtualCell(unsafe.Pointer(p), 8); c != nil {
		*c = uint64(v)
		return
	}
	atomic.StoreInt64(p, v)
}
func AtomicSwapInt64(p *int64, v int64, site int) int64 {
	atomicPre(unsafe.Pointer(p), true, site, "atomic.SwapInt64")
	if c := virtualCell(unsafe.Pointer(p), 8); c != nil {
		old := int64(*c)
		*c = uint64(v)
		return old
	}
	return atomic.SwapInt64(p, v)
}
func AtomicCompareAndSwapInt64(p *int64, o, n int64, site int) bool {
	atomicPre(unsafe.Pointer(p), true, site, "atomic.CompareAndSwapInt64")
	if c := virtualCell(unsafe.Pointer(p), 8); c != nil {
		if int64(*c) != o {
			return false
		}
		*c = uint64(n)
		return true
	}
	return atomic.CompareAndSwapInt64(p, o, n)
}

func AtomicAddUint32(p *uint32, d uint32, site int) uint32 {
	atomicPre(unsafe.Pointer(p), true, site, "atomic.AddUint32")
	if c := virtualCell(unsafe.Pointer(p), 4); c != nil {
		v := uint32(*c) + d
		*c = uint64(v)
		return v
	}
	return atomic.AddUint32(p, d)
}
func AtomicLoadUint32(p *uint32, site int) uint32 {
	atomicPre(unsafe.Pointer(p), false, site, "atomic.LoadUint32")
	if c := virtualCell(unsafe.Pointer(p), 4); c != nil {
		return uint32(*c)
	}
	return atomic.LoadUint32(p)
}
func AtomicStoreUint32(p *uint32, v uint32, site int) {
	atomicPre(unsafe.Pointer(p), true, site, "atomic.StoreUint32")
	if c := virtualCell(unsafe.Pointer(p), 4); c != nil {
		*c = uint64(v)
		return
	}
	atomic.StoreUint32(p, v)
}
func AtomicSwapUint32(p *uint32, v uint32, site int) uint32 {
	atomicPre(unsafe.Pointer(p), true, site, "atomic.SwapUint32")
	if c := virtualCell(unsafe.Pointer(p), 4); c != nil {
		old := uint32(*c)
		*c = uint64(v)
		return old
	}
	return atomic.SwapUint32(p, v)
}
func AtomicCompareAndSwapUint32(p *uint32, o, n uint32, site int) bool {
	atomicPre(unsafe.Pointer(p), true, site, "atomic.CompareAndSwapUint32")
	if c := virtualCell(unsafe.Pointer(p), 4); c != nil {
		if uint32(*c) != o {
			return false
		}
		*c = uint64(n)
		return true
	}
	return atomic.CompareAndSwapUint32(p, o, n)
}

func AtomicAddUint64(p *uint64, d uint64, site int) uint64 {
	atomicPre(unsafe.Pointer(p), true, site, "atomic.AddUint64")
	if c := virtualCell(unsafe.Pointer(p), 8); c != nil {
		v := uint64(*c) + d
		*c = uint64(v)
		return v
	}
	return atomic.AddUint64(p, d)
}
func AtomicLoadUint64(p *uint64, site int) uint64 {
	atomicPre(unsafe.Pointer(p), false, site, "atomic.LoadUint64")
	if c := virtualCell(unsafe.Pointer(p), 8); c != nil {
		return uint64(*c)
	}
	return atomic.LoadUint64(p)
}
func AtomicStoreUint64(p *uint64, v uint64, site int) {
	atomicPre(unsafe.Pointer(p), true, site, "atomic.StoreUint64")
	if c := virtualCell(unsafe.Pointer(p), 8); c != nil {
		*c = uint64(v)
		return
	}
	atomic.StoreUint64(p, v)
}
func AtomicSwapUint64(p *uint64, v uint64, site int) uint64 {
	atomicPre(unsafe.Pointer(p), true, site, "atomic.SwapUint64")
	if c := virtualCell(unsafe.Pointer(p), 8); c != nil {
		old := uint64(*c)
		*c = uint64(v)
		return old
	}
	return atomic.SwapUint64(p, v)
}
func AtomicCompareAndSwapUint64(p *uint64, o, n uint64, site int) bool {
	atomicPre(unsafe.Pointer(p), true, site, "atomic.CompareAndSwapUint64")
	if c := virtualCell(unsafe.Pointer(p), 8); c != nil {
		if uint64(*c) != o {
			return false
		}
		*c = uint64(n)
		return true
	}
	return atomic.CompareAndSwapUint64(p, o, n)
}
