package simrt

import (
	"sync/atomic"
	"unsafe"
)

// The function forms of sync/atomic on integers are modelled: each is a
// scheduling point and a synchronisation operation (a write releases, a read
// acquires, per address), so code that publishes data through an atomic flag
// is not misreported by the race checker. OnAtomicWrite lets a harness react
// to the address about to be written (the C09 harness makes the page writable
// if it lies in its frozen arena: an atomically updated integer is legitimate
// shared state and holds no pointers).

// OnAtomicWrite, when set, is called before an atomic store/add/swap/CAS.
var OnAtomicWrite func(addr uintptr)

type atomicState struct{ vc []uint32 }

func (sim *Sim) atomicOp(p unsafe.Pointer, write bool, site int, what string) {
	if sim.atomics == nil {
		sim.atomics = map[unsafe.Pointer]*atomicState{}
	}
	st := sim.atomics[p]
	if st == nil {
		st = &atomicState{}
		sim.atomics[p] = st
	}
	sim.schedPoint(site, what, nil)
	if sim.dead() {
		return
	}
	if sim.race != nil {
		sim.race.acquire(sim.running, st.vc)
		if write {
			st.vc = sim.race.release(sim.running, st.vc)
		}
	}
}

func atomicPre(p unsafe.Pointer, write bool, site int, what string) {
	if write && OnAtomicWrite != nil {
		OnAtomicWrite(uintptr(p))
	}
	if sim := cur; sim != nil && !sim.dead() {
		sim.atomicOp(p, write, site, what)
	}
}

func AtomicAddInt32(p *int32, d int32, site int) int32 {
	atomicPre(unsafe.Pointer(p), true, site, "atomic.AddInt32")
	return atomic.AddInt32(p, d)
}
func AtomicAddInt64(p *int64, d int64, site int) int64 {
	atomicPre(unsafe.Pointer(p), true, site, "atomic.AddInt64")
	return atomic.AddInt64(p, d)
}
func AtomicAddUint32(p *uint32, d uint32, site int) uint32 {
	atomicPre(unsafe.Pointer(p), true, site, "atomic.AddUint32")
	return atomic.AddUint32(p, d)
}
func AtomicAddUint64(p *uint64, d uint64, site int) uint64 {
	atomicPre(unsafe.Pointer(p), true, site, "atomic.AddUint64")
	return atomic.AddUint64(p, d)
}
func AtomicLoadInt32(p *int32, site int) int32 {
	atomicPre(unsafe.Pointer(p), false, site, "atomic.LoadInt32")
	return atomic.LoadInt32(p)
}
func AtomicLoadInt64(p *int64, site int) int64 {
	atomicPre(unsafe.Pointer(p), false, site, "atomic.LoadInt64")
	return atomic.LoadInt64(p)
}
func AtomicLoadUint32(p *uint32, site int) uint32 {
	atomicPre(unsafe.Pointer(p), false, site, "atomic.LoadUint32")
	return atomic.LoadUint32(p)
}
func AtomicLoadUint64(p *uint64, site int) uint64 {
	atomicPre(unsafe.Pointer(p), false, site, "atomic.LoadUint64")
	return atomic.LoadUint64(p)
}
func AtomicStoreInt32(p *int32, v int32, site int) {
	atomicPre(unsafe.Pointer(p), true, site, "atomic.StoreInt32")
	atomic.StoreInt32(p, v)
}
func AtomicStoreInt64(p *int64, v int64, site int) {
	atomicPre(unsafe.Pointer(p), true, site, "atomic.StoreInt64")
	atomic.StoreInt64(p, v)
}
func AtomicStoreUint32(p *uint32, v uint32, site int) {
	atomicPre(unsafe.Pointer(p), true, site, "atomic.StoreUint32")
	atomic.StoreUint32(p, v)
}
func AtomicStoreUint64(p *uint64, v uint64, site int) {
	atomicPre(unsafe.Pointer(p), true, site, "atomic.StoreUint64")
	atomic.StoreUint64(p, v)
}
func AtomicSwapInt32(p *int32, v int32, site int) int32 {
	atomicPre(unsafe.Pointer(p), true, site, "atomic.SwapInt32")
	return atomic.SwapInt32(p, v)
}
func AtomicSwapInt64(p *int64, v int64, site int) int64 {
	atomicPre(unsafe.Pointer(p), true, site, "atomic.SwapInt64")
	return atomic.SwapInt64(p, v)
}
func AtomicSwapUint32(p *uint32, v uint32, site int) uint32 {
	atomicPre(unsafe.Pointer(p), true, site, "atomic.SwapUint32")
	return atomic.SwapUint32(p, v)
}
func AtomicSwapUint64(p *uint64, v uint64, site int) uint64 {
	atomicPre(unsafe.Pointer(p), true, site, "atomic.SwapUint64")
	return atomic.SwapUint64(p, v)
}
func AtomicCompareAndSwapInt32(p *int32, o, n int32, site int) bool {
	atomicPre(unsafe.Pointer(p), true, site, "atomic.CompareAndSwapInt32")
	return atomic.CompareAndSwapInt32(p, o, n)
}
func AtomicCompareAndSwapInt64(p *int64, o, n int64, site int) bool {
	atomicPre(unsafe.Pointer(p), true, site, "atomic.CompareAndSwapInt64")
	return atomic.CompareAndSwapInt64(p, o, n)
}
func AtomicCompareAndSwapUint32(p *uint32, o, n uint32, site int) bool {
	atomicPre(unsafe.Pointer(p), true, site, "atomic.CompareAndSwapUint32")
	return atomic.CompareAndSwapUint32(p, o, n)
}
func AtomicCompareAndSwapUint64(p *uint64, o, n uint64, site int) bool {
	atomicPre(unsafe.Pointer(p), true, site, "atomic.CompareAndSwapUint64")
	return atomic.CompareAndSwapUint64(p, o, n)
}
