package simrt

import (
	"bytes"
	"fmt"
	"io"
	"os"
)

// ExitPanic is the typed panic that replaces os.Exit / log.Fatal in an
// instrumented package main.
type ExitPanic struct {
	Code int
	Msg  string
}

func (e ExitPanic) String() string { return fmt.Sprintf("exit status %d: %s", e.Code, e.Msg) }

// Exit replaces os.Exit.
func Exit(code int) {
	if !InMain() {
		os.Exit(code)
	}
	panic(ExitPanic{Code: code})
}

// Fatal replaces log.Fatal / log.Fatalf / log.Fatalln (message already formatted).
func Fatal(msg string) {
	if !InMain() {
		fmt.Fprintln(os.Stderr, msg)
		os.Exit(1)
	}
	fmt.Fprintln(Stderr(), msg)
	panic(ExitPanic{Code: 1, Msg: msg})
}

var (
	mainOut  *bytes.Buffer
	mainErr  *bytes.Buffer
	mainMode bool
)

// BeginMain makes Exit/Fatal/Stdout capture instead of acting on the process.
func BeginMain() {
	mainMode = true
	mainOut, mainErr = &bytes.Buffer{}, &bytes.Buffer{}
}

// EndMain returns what the simulated main printed.
func EndMain() (stdout, stderr string) {
	mainMode = false
	return mainOut.String(), mainErr.String()
}

func InMain() bool { return mainMode }

// Stdout replaces os.Stdout for fmt.Print* in an instrumented package main.
func Stdout() io.Writer {
	if mainMode {
		return mainOut
	}
	return os.Stdout
}

func Stderr() io.Writer {
	if mainMode {
		return mainErr
	}
	return os.Stderr
}
