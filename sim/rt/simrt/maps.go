package simrt

import (
	"fmt"
	"reflect"
	"sort"
	"unsafe"
)

func mapID[M any](m M) unsafe.Pointer { return *(*unsafe.Pointer)(unsafe.Pointer(&m)) }

// MapKeys replaces the iteration order of `for k := range m`: the keys in a
// canonical (sorted) order, permuted by a draw on the choice stream when the
// run shuffles maps. Any order is legal Go.
func MapKeys[M ~map[K]V, K comparable, V any](m M, site int) []K {
	if len(m) == 0 {
		return nil
	}
	keys := make([]K, 0, len(m))
	for k := range m {
		keys = append(keys, k)
	}
	sortKeys(keys)
	sim := cur
	if sim == nil || sim.dead() {
		return keys
	}
	if sim.race != nil {
		sim.race.access(sim, uintptr(mapID(m)), 1, false, site, true)
		sim.race.keepMap(mapID(m), m)
	}
	if sim.Cfg.ShuffleMaps && len(keys) > 1 {
		sim.rep.Counters["map_ranges_shuffled"]++
		// Fisher-Yates driven by the stream; zeros give the sorted order.
		// Large maps: shuffle by a rotation plus a bounded number of swaps so
		// that the choice vector stays short.
		n := len(keys)
		if n <= 24 {
			for i := 0; i < n-1; i++ {
				j := i + sim.S.Draw(n-i, "map-perm")
				keys[i], keys[j] = keys[j], keys[i]
			}
		} else {
			rot := sim.S.Draw(n, "map-rot")
			if rot > 0 {
				tmp := append(append([]K(nil), keys[rot:]...), keys[:rot]...)
				copy(keys, tmp)
			}
			if sim.S.Draw(2, "map-rev") == 1 {
				for i, j := 0, n-1; i < j; i, j = i+1, j-1 {
					keys[i], keys[j] = keys[j], keys[i]
				}
			}
			for s := 0; s < 8; s++ {
				i, j := sim.S.Draw(n, "map-swap"), sim.S.Draw(n, "map-swap")
				keys[i], keys[j] = keys[j], keys[i]
			}
		}
	}
	return keys
}

func sortKeys[K comparable](keys []K) {
	if len(keys) < 2 {
		return
	}
	switch ks := any(keys).(type) {
	case []string:
		sort.Strings(ks)
		return
	case []int:
		sort.Ints(ks)
		return
	}
	var k0 K
	rt := reflect.TypeOf(k0)
	var less func(a, b K) bool
	if rt == nil {
		less = func(a, b K) bool { return fmt.Sprint(a) < fmt.Sprint(b) }
	} else {
		switch rt.Kind() {
		case reflect.Int, reflect.Int8, reflect.Int16, reflect.Int32, reflect.Int64:
			less = func(a, b K) bool { return reflect.ValueOf(a).Int() < reflect.ValueOf(b).Int() }
		case reflect.Uint, reflect.Uint8, reflect.Uint16, reflect.Uint32, reflect.Uint64, reflect.Uintptr:
			less = func(a, b K) bool { return reflect.ValueOf(a).Uint() < reflect.ValueOf(b).Uint() }
		case reflect.String:
			less = func(a, b K) bool { return reflect.ValueOf(a).String() < reflect.ValueOf(b).String() }
		case reflect.Float32, reflect.Float64:
			less = func(a, b K) bool { return reflect.ValueOf(a).Float() < reflect.ValueOf(b).Float() }
		default:
			less = func(a, b K) bool { return fmt.Sprintf("%#v", a) < fmt.Sprintf("%#v", b) }
		}
	}
	sort.SliceStable(keys, func(i, j int) bool { return less(keys[i], keys[j]) })
}

// MapR marks a read of map m (lookup, len, range).
func MapR[M ~map[K]V, K comparable, V any](m M, site int) M {
	if sim := cur; sim != nil && sim.race != nil && m != nil && sim.running != nil {
		sim.race.access(sim, uintptr(mapID(m)), 1, false, site, true)
		sim.race.keepMap(mapID(m), m)
	}
	return m
}

// MapW marks a write of map m (assignment, delete, op-assignment).
func MapW[M ~map[K]V, K comparable, V any](m M, site int) M {
	if sim := cur; sim != nil && sim.race != nil && m != nil && sim.running != nil {
		sim.race.access(sim, uintptr(mapID(m)), 1, true, site, true)
		sim.race.keepMap(mapID(m), m)
	}
	return m
}

// R marks a read of *p.
func R[T any](p *T, site int) *T {
	if sim := cur; sim != nil && sim.race != nil && sim.running != nil {
		sim.race.access(sim, uintptr(unsafe.Pointer(p)), unsafe.Sizeof(*p), false, site, false)
		sim.race.keepAlive(unsafe.Pointer(p))
	}
	return p
}

// W marks a write of *p.
func W[T any](p *T, site int) *T {
	if sim := cur; sim != nil && sim.race != nil && sim.running != nil {
		sim.race.access(sim, uintptr(unsafe.Pointer(p)), unsafe.Sizeof(*p), true, site, false)
		sim.race.keepAlive(unsafe.Pointer(p))
	}
	return p
}

// RW marks a read-modify-write of *p.
func RW[T any](p *T, site int) *T { return W(p, site) }
