// Package freeze copies everything reachable from a root object — structs,
// arrays behind slices (including spare capacity), strings — into a memory
// arena obtained from mmap, re-points the object graph at the copies and then
// makes the arena read-only. Any later store into that memory, including one
// that stores the value already there, raises SIGSEGV, which the Go runtime
// turns into a panic carrying the fault address on goroutines that called
// debug.SetPanicOnFault(true).
//
// Go maps cannot live outside the Go heap: they stay where they are, but the
// pointer, slice and string values they hold are re-pointed into the arena.
// The original objects are kept alive for the lifetime of the arena, so
// everything the arena still refers to on the Go heap (the maps) stays valid
// although the garbage collector cannot see pointers stored in the arena.
package freeze

import (
	"fmt"
	"reflect"
	"sort"
	"syscall"
	"unsafe"
)

type region struct {
	start, end uintptr
	dst        uintptr
}

// Arena is a frozen copy of an object graph.
type Arena struct {
	mem      []byte
	regions  []region
	keep     []any // originals
	Objects  int
	Bytes    int
	Maps     int
	Thawed   int      // pages made writable again
	Unfrozen []string // types left on the heap because they contain a lock
	Skipped  []string // kinds that could not be frozen (funcs, channels, boxed interface values)
	frozen   bool
}

type visitKey struct {
	p unsafe.Pointer
	t reflect.Type
	n int
}

type freezer struct {
	a       *Arena
	raw     []region
	seen    map[visitKey]bool
	skipped map[string]bool
}

// Freeze returns a pointer to a read-only copy of *root.
func Freeze[T any](root *T) (*T, *Arena, error) {
	f := &freezer{a: &Arena{}, seen: map[visitKey]bool{}, skipped: map[string]bool{}}
	f.a.keep = append(f.a.keep, root)
	rv := reflect.ValueOf(root)
	f.collect(rv)
	if err := f.layout(); err != nil {
		return nil, nil, err
	}
	// rewrite pointers inside the copies
	f.seen = map[visitKey]bool{}
	nroot := f.translate(unsafe.Pointer(root))
	nv := reflect.NewAt(rv.Type().Elem(), nroot)
	f.rewrite(nv.Elem())
	for k := range f.skipped {
		f.a.Skipped = append(f.a.Skipped, k)
	}
	sort.Strings(f.a.Skipped)
	if err := syscall.Mprotect(f.a.mem, syscall.PROT_READ); err != nil {
		return nil, nil, fmt.Errorf("mprotect: %w", err)
	}
	f.a.frozen = true
	return (*T)(nroot), f.a, nil
}

// Base returns the address of the first frozen byte.
func (a *Arena) Base() uintptr { return uintptr(unsafe.Pointer(&a.mem[0])) }

// Contains reports whether addr lies in the arena.
func (a *Arena) Contains(addr uintptr) bool {
	if len(a.mem) == 0 {
		return false
	}
	base := uintptr(unsafe.Pointer(&a.mem[0]))
	return addr >= base && addr < base+uintptr(len(a.mem))
}

// Thaw makes the page containing addr writable again (the rest of the arena
// stays read-only) and returns false if addr is not in the arena.
func (a *Arena) Thaw(addr uintptr) bool {
	if !a.Contains(addr) {
		return false
	}
	page := uintptr(syscall.Getpagesize())
	off := (addr - uintptr(unsafe.Pointer(&a.mem[0]))) &^ (page - 1)
	if err := syscall.Mprotect(a.mem[off:off+page], syscall.PROT_READ|syscall.PROT_WRITE); err != nil {
		return false
	}
	a.Thawed++
	return true
}

// Release unmaps the arena. The frozen copy must not be used afterwards.
func (a *Arena) Release() {
	if a.mem != nil {
		syscall.Munmap(a.mem)
		a.mem = nil
	}
	a.keep = nil
}

func access(v reflect.Value) reflect.Value {
	// make unexported fields readable and settable
	if v.CanAddr() && !v.CanSet() {
		return reflect.NewAt(v.Type(), unsafe.Pointer(v.UnsafeAddr())).Elem()
	}
	return v
}

func (f *freezer) add(p unsafe.Pointer, size uintptr) {
	if p == nil || size == 0 {
		return
	}
	f.raw = append(f.raw, region{start: uintptr(p), end: uintptr(p) + size})
}

// bearsLock reports whether a value of type t contains, by value, a type of
// package sync (Mutex, RWMutex, Once, WaitGroup, ...). Such an object is state
// the program synchronises on: it is left on the Go heap, unfrozen — stores
// into it under its lock are legitimate, and memory that receives new Go
// pointers must stay visible to the garbage collector.
func bearsLock(t reflect.Type) bool {
	switch t.Kind() {
	case reflect.Struct:
		if t.PkgPath() == "sync" || t.PkgPath() == "sync/atomic" {
			return true
		}
		for i := 0; i < t.NumField(); i++ {
			if bearsLock(t.Field(i).Type) {
				return true
			}
		}
	case reflect.Array:
		return t.Len() > 0 && bearsLock(t.Elem())
	}
	return false
}

func hasPointers(t reflect.Type) bool {
	switch t.Kind() {
	case reflect.Ptr, reflect.Slice, reflect.String, reflect.Map, reflect.Interface, reflect.Func, reflect.Chan, reflect.UnsafePointer:
		return true
	case reflect.Struct:
		for i := 0; i < t.NumField(); i++ {
			if hasPointers(t.Field(i).Type) {
				return true
			}
		}
		return false
	case reflect.Array:
		return t.Len() > 0 && hasPointers(t.Elem())
	}
	return false
}

// collect records every memory region reachable from v.
func (f *freezer) collect(v reflect.Value) {
	v = access(v)
	switch v.Kind() {
	case reflect.Ptr:
		if v.IsNil() {
			return
		}
		p := v.UnsafePointer()
		k := visitKey{p, v.Type(), 0}
		if f.seen[k] {
			return
		}
		f.seen[k] = true
		f.a.keep = append(f.a.keep, v.Interface())
		if bearsLock(v.Type().Elem()) {
			f.a.Unfrozen = append(f.a.Unfrozen, v.Type().Elem().String())
		} else {
			f.add(p, v.Type().Elem().Size())
			f.a.Objects++
		}
		f.collect(v.Elem())
	case reflect.Slice:
		if v.Cap() == 0 {
			return
		}
		p := v.UnsafePointer()
		k := visitKey{p, v.Type(), v.Cap()}
		if f.seen[k] {
			return
		}
		f.seen[k] = true
		f.a.keep = append(f.a.keep, v.Interface())
		if bearsLock(v.Type().Elem()) {
			f.a.Unfrozen = append(f.a.Unfrozen, "[]"+v.Type().Elem().String())
		} else {
			f.add(p, uintptr(v.Cap())*v.Type().Elem().Size())
			f.a.Objects++
		}
		if hasPointers(v.Type().Elem()) {
			for i := 0; i < v.Len(); i++ {
				f.collect(v.Index(i))
			}
		}
	case reflect.String:
		if v.Len() == 0 {
			return
		}
		s := v.String()
		f.a.keep = append(f.a.keep, s)
		f.add(unsafe.Pointer(unsafe.StringData(s)), uintptr(len(s)))
	case reflect.Struct:
		for i := 0; i < v.NumField(); i++ {
			if hasPointers(v.Type().Field(i).Type) {
				f.collect(v.Field(i))
			}
		}
	case reflect.Array:
		if hasPointers(v.Type().Elem()) {
			for i := 0; i < v.Len(); i++ {
				f.collect(v.Index(i))
			}
		}
	case reflect.Map:
		if v.IsNil() {
			return
		}
		k := visitKey{v.UnsafePointer(), v.Type(), 0}
		if f.seen[k] {
			return
		}
		f.seen[k] = true
		f.a.Maps++
		f.a.keep = append(f.a.keep, v.Interface())
		if !hasPointers(v.Type().Elem()) {
			return
		}
		it := v.MapRange()
		for it.Next() {
			tmp := reflect.New(v.Type().Elem()).Elem()
			tmp.Set(it.Value())
			f.collect(tmp)
		}
	case reflect.Interface:
		if v.IsNil() {
			return
		}
		e := v.Elem()
		if e.Kind() == reflect.Ptr {
			f.collect(e)
		} else if hasPointers(e.Type()) || e.Type().Size() > 0 {
			f.skipped["interface holding "+e.Type().String()] = true
		}
	case reflect.Func:
		if !v.IsNil() {
			f.skipped["func value"] = true
		}
	case reflect.Chan, reflect.UnsafePointer:
		if !v.IsNil() {
			f.skipped[v.Kind().String()] = true
		}
	}
}

func (f *freezer) layout() error {
	sort.Slice(f.raw, func(i, j int) bool { return f.raw[i].start < f.raw[j].start })
	var merged []region
	for _, r := range f.raw {
		if n := len(merged); n > 0 && r.start < merged[n-1].end {
			if r.end > merged[n-1].end {
				merged[n-1].end = r.end
			}
			continue
		}
		merged = append(merged, r)
	}
	total := uintptr(0)
	for i := range merged {
		total = (total + 15) &^ 15
		merged[i].dst = total
		total += merged[i].end - merged[i].start
	}
	page := uintptr(syscall.Getpagesize())
	size := (total + page) &^ (page - 1)
	mem, err := syscall.Mmap(-1, 0, int(size), syscall.PROT_READ|syscall.PROT_WRITE, syscall.MAP_ANON|syscall.MAP_PRIVATE)
	if err != nil {
		return fmt.Errorf("mmap %d bytes: %w", size, err)
	}
	base := uintptr(unsafe.Pointer(&mem[0]))
	for i := range merged {
		merged[i].dst += base
		n := merged[i].end - merged[i].start
		src := unsafe.Slice((*byte)(unsafe.Pointer(merged[i].start)), n)
		dst := unsafe.Slice((*byte)(unsafe.Pointer(merged[i].dst)), n)
		copy(dst, src)
	}
	f.a.mem = mem
	f.a.regions = merged
	f.a.Bytes = int(total)
	return nil
}

// translate maps an address in an original region to the copy.
func (f *freezer) translate(p unsafe.Pointer) unsafe.Pointer {
	a := uintptr(p)
	rs := f.a.regions
	i := sort.Search(len(rs), func(i int) bool { return rs[i].end > a })
	if i < len(rs) && rs[i].start <= a {
		return unsafe.Pointer(rs[i].dst + (a - rs[i].start))
	}
	return p
}

// rewrite re-points every pointer stored in v (which lives in the arena or in
// a temporary) and recurses into the copies.
func (f *freezer) rewrite(v reflect.Value) {
	v = access(v)
	switch v.Kind() {
	case reflect.Ptr:
		if v.IsNil() {
			return
		}
		np := f.translate(v.UnsafePointer())
		*(*unsafe.Pointer)(unsafe.Pointer(v.UnsafeAddr())) = np
		k := visitKey{np, v.Type(), 0}
		if f.seen[k] {
			return
		}
		f.seen[k] = true
		f.rewrite(reflect.NewAt(v.Type().Elem(), np).Elem())
	case reflect.Slice:
		if v.Cap() == 0 {
			return
		}
		np := f.translate(v.UnsafePointer())
		// slice header: data pointer is the first word
		*(*unsafe.Pointer)(unsafe.Pointer(v.UnsafeAddr())) = np
		k := visitKey{np, v.Type(), v.Cap()}
		if f.seen[k] {
			return
		}
		f.seen[k] = true
		if hasPointers(v.Type().Elem()) {
			for i := 0; i < v.Len(); i++ {
				f.rewrite(v.Index(i))
			}
		}
	case reflect.String:
		if v.Len() == 0 {
			return
		}
		np := f.translate(unsafe.Pointer(unsafe.StringData(v.String())))
		*(*unsafe.Pointer)(unsafe.Pointer(v.UnsafeAddr())) = np
	case reflect.Struct:
		for i := 0; i < v.NumField(); i++ {
			if hasPointers(v.Type().Field(i).Type) {
				f.rewrite(v.Field(i))
			}
		}
	case reflect.Array:
		if hasPointers(v.Type().Elem()) {
			for i := 0; i < v.Len(); i++ {
				f.rewrite(v.Index(i))
			}
		}
	case reflect.Map:
		if v.IsNil() {
			return
		}
		k := visitKey{v.UnsafePointer(), v.Type(), 0}
		if f.seen[k] {
			return
		}
		f.seen[k] = true
		if !hasPointers(v.Type().Elem()) {
			return
		}
		type kv struct{ k, v reflect.Value }
		var upd []kv
		it := v.MapRange()
		for it.Next() {
			tmp := reflect.New(v.Type().Elem()).Elem()
			tmp.Set(it.Value())
			f.rewrite(tmp)
			upd = append(upd, kv{it.Key(), tmp})
		}
		for _, e := range upd {
			v.SetMapIndex(e.k, e.v)
		}
	case reflect.Interface:
		if v.IsNil() {
			return
		}
		e := v.Elem()
		if e.Kind() == reflect.Ptr && !e.IsNil() {
			np := f.translate(e.UnsafePointer())
			// interface layout: (type word, data word)
			(*[2]unsafe.Pointer)(unsafe.Pointer(v.UnsafeAddr()))[1] = np
			k := visitKey{np, e.Type(), 0}
			if !f.seen[k] {
				f.seen[k] = true
				f.rewrite(reflect.NewAt(e.Type().Elem(), np).Elem())
			}
		}
	}
}
